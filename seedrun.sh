#!/bin/bash
# seedrun.sh <patch.diff> <check> [<check>...] : run checks against a scratch worktree of /repo HEAD with the patch applied
patch=$1; shift
W=$(mktemp -d /tmp/sr-XXXXXX); rmdir $W
git -C /repo worktree add -q --detach $W HEAD || exit 2
trap 'git -C /repo worktree remove --force $W >/dev/null 2>&1; rm -rf $W /tmp/seedout-$$' EXIT
cd $W
if ! git apply --3way "$patch" 2>/dev/null && ! patch -p1 --fuzz=3 -s < "$patch"; then echo "PATCH DOES NOT APPLY"; exit 3; fi
git reset -q
mkdir -p /tmp/seedout-$$
for c in "$@"; do
  out=$(cd /verif && VERIF_REPO=$W VERIF_OUT=/tmp/seedout-$$ VERIF_SEED=${VERIF_SEED:-1} timeout 1500 ./check $c ${TIER:-quick} 2>&1); rc=$?
  echo "check $c: rc=$rc violations=$(echo "$out" | grep -c '^VIOLATION') :: $(echo "$out" | grep -A1 '^VIOLATION' | sed -n 2p | cut -c1-260)"
  echo "   $(echo "$out" | tail -1 | cut -c1-200)"
  [ -n "$SHOW" ] && echo "$out" | grep -v "^  \|^VIOLATION" | head -${SHOW}
done
