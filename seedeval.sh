#!/bin/bash
# seedeval.sh <PROP> <k> "<checks to run>" : confirm a seeded change in a scratch worktree of /repo HEAD
# (demo fails with it, passes without, existing suite still passes), then run the named checks against it.
# Results: /verif/seeded/<PROP>-<k>/{patch.diff,demo_test.go,meta.json,result.txt}
P=$1; K=$2; CHECKS=${3:-$P}
SRC=${SRCROOT:-/tmp/seed/out}/$P
OUT=/verif/seeded/$P-$K
export GOPROXY=off GOSUMDB=off GOTOOLCHAIN=local
[ -f $SRC/patch$K.diff ] || { echo "no patch $SRC/patch$K.diff"; exit 2; }
mkdir -p $OUT; cp $SRC/patch$K.diff $OUT/patch.diff; cp $SRC/demo${K}_test.go $OUT/demo_test.go; cp $SRC/meta$K.json $OUT/meta.orig.json
W=$(mktemp -d /tmp/sw-XXXXXX); rmdir $W
git -C /repo worktree add -q --detach $W HEAD || exit 2
res=$OUT/result.txt; : > $res
cleanup() { git -C /repo worktree remove --force $W >/dev/null 2>&1; rm -rf $W; }
trap cleanup EXIT
cd $W
if ! git apply --3way $OUT/patch.diff 2>/tmp/seedeval-$P-$K.err && ! patch -p1 --fuzz=3 -s < $OUT/patch.diff 2>>/tmp/seedeval-$P-$K.err; then
  echo "apply: FAILED (does not apply to current HEAD)" | tee -a $res; exit 3
fi
git reset -q; echo "apply: ok ($(git diff --stat | tail -1))" | tee -a $res
dest=$(python3 - <<PY
import json,re
d=json.load(open('$OUT/meta.orig.json')).get('demo_dest','') or ''
m=re.search(r'[A-Za-z0-9_./<>-]*_test\.go', d)
t=m.group(0) if m else ''
t=re.sub(r'^<[^>]*>/?','',t)   # "<root>/x_test.go"
t=t.lstrip('/')
if t.startswith('tmp/'): t=t.split('/')[-1]
if not t:
    m=re.search(r'(pkg/[A-Za-z0-9_/]+|schema|model)', d)
    t=(m.group(1)+'/' if m else '')+'seeddemo${K}_test.go'
print(t)
PY
)
mkdir -p "$(dirname $W/$dest)"; cp $OUT/demo_test.go "$W/$dest"
pkgdir=$(dirname "$dest"); tname=$(grep -o "^func Test[A-Za-z0-9_]*" $OUT/demo_test.go | sed 's/func //' | paste -sd'|')
tags=""; grep -q -- "-tags verif" $OUT/meta.orig.json && tags="-tags verif"
rundemo() { (cd $W/$pkgdir && unset GOFLAGS && timeout 300 go test $tags -vet=off -count=1 -run "^($tname)\$" . > /tmp/seedeval-$P-$K.demo 2>&1); echo $?; }
rc=$(rundemo); echo "demo with change: rc=$rc (expected non-zero)" | tee -a $res
(cd $W && unset GOFLAGS && timeout 600 go test -vet=off -count=1 ./... > /tmp/seedeval-$P-$K.suite 2>&1; echo "suite with change (root): rc=$? fails: $(grep -c '^--- FAIL' /tmp/seedeval-$P-$K.suite) [$(grep '^--- FAIL' /tmp/seedeval-$P-$K.suite | grep -v 'TestC[0-9]*\|Demo\|demo' | cut -c1-70 | paste -sd';')]") | tee -a $res
(cd $W/schema && unset GOFLAGS && timeout 300 go test -vet=off -count=1 ./... > /tmp/seedeval-$P-$K.suite2 2>&1; echo "suite with change (schema): rc=$?") | tee -a $res
# undo the change, keep the demo
git -C $W checkout -q -- . ; rc2=$(rundemo); echo "demo without change: rc=$rc2 (expected 0)" | tee -a $res
# re-apply for the checks
(cd $W && (git apply --3way $OUT/patch.diff 2>/dev/null || patch -p1 --fuzz=3 -s < $OUT/patch.diff) && git reset -q); rm -f "$W/$dest"
mkdir -p /tmp/seedout-$P-$K
for c in $CHECKS; do
  out=$(cd /verif && VERIF_REPO=$W VERIF_OUT=/tmp/seedout-$P-$K VERIF_SEED=${VERIF_SEED:-1} timeout 1500 ./check $c ${TIER:-quick} 2>&1); crc=$?
  echo "check $c: rc=$crc violations=$(echo "$out" | grep -c '^VIOLATION') :: $(echo "$out" | grep -A1 '^VIOLATION' | sed -n 2p | cut -c1-220)" | tee -a $res
  echo "   $(echo "$out" | tail -1)" | tee -a $res
done
rm -rf /tmp/seedout-$P-$K
rm -f /tmp/seedeval-$P-$K.demo /tmp/seedeval-$P-$K.suite /tmp/seedeval-$P-$K.suite2 /tmp/seedeval-$P-$K.err
