#!/bin/bash
# mutcheck.sh <patch.diff> <prop> [<prop>...] : apply a seeded change to /repo, run the checks, undo.
patch="$1"; shift
cd /repo || exit 2
git diff --quiet || { echo "repo dirty"; exit 2; }
if ! git apply --3way "$patch" 2>/tmp/mutcheck.err && ! patch -p1 --fuzz=3 -s < "$patch" 2>>/tmp/mutcheck.err; then echo "PATCH DOES NOT APPLY: $patch"; cat /tmp/mutcheck.err | tail -5; git reset -q --hard HEAD; exit 3; fi
for p in "$@"; do
  out=$(cd /verif && VERIF_SEED=${VERIF_SEED:-1} ./check $p ${TIER:-quick} 2>&1); rc=$?
  echo "== $p rc=$rc : $(echo "$out" | grep -c '^VIOLATION') violations; $(echo "$out" | grep '^VIOLATION' -A1 | sed -n 2p)"
  echo "$out" | tail -1
done
cd /repo && git reset -q --hard HEAD && git clean -fdq; git status --short | head -3
