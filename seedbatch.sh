#!/bin/bash
# seedbatch.sh [<id> ...] : re-evaluate seeded changes (default: all) against the current checks, each in its own
# scratch worktree of /repo HEAD (seedrun.sh); appends one line per change to seeded/eval.log and
# writes seeded/<id>/eval.txt.  PAR=<n> runs n evaluations at a time (default 2).
cd /verif
ids=("$@"); [ ${#ids[@]} -eq 0 ] && ids=($(ls -d seeded/C*-* | xargs -n1 basename))
PAR=${PAR:-2}
one() {
  id=$1; prop=${id%%-*}
  # evaluated less than SKIP_MIN minutes ago (another batch): skip
  if [ -n "${SKIP_MIN:-}" ] && [ -n "$(find seeded/$id/eval.txt -mmin -$SKIP_MIN 2>/dev/null)" ]; then return; fi
  [ -n "${SKIP_MIN:-}" ] && touch seeded/$id/eval.txt
  extra=$(python3 - "$id" <<'PY'
import json,sys,os
p='/verif/seeded/%s/meta.json'%sys.argv[1]
if os.path.exists(p):
    print(' '.join(json.load(open(p)).get('also_checks',[])))
PY
)
  out=$(./seedrun.sh /verif/seeded/$id/patch.diff $prop $extra 2>&1 | grep -v '^WARNING')
  { echo "# $(date -u +%FT%TZ) verif=$(git -C /verif rev-parse --short HEAD) repo=$(git -C /repo rev-parse --short HEAD) tier=${TIER:-quick} seed=${VERIF_SEED:-1}"; echo "$out"; } > seeded/$id/eval.txt
  echo "$id :: $(echo "$out" | grep '^check' | sed 's/ ::.*//' | paste -sd'|')" >> seeded/eval.log
}
export -f one
printf '%s\n' "${ids[@]}" | xargs -P $PAR -I{} bash -c 'one {}'
