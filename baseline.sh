#!/bin/bash
# Runs the repository's pinned test suite with the verif build tag OFF (both modules, workspace mode as in BASELINE.json).
export GOPROXY=off GOSUMDB=off GOTOOLCHAIN=local
unset GOFLAGS GOWORK
rc=0
for m in . schema; do
  (cd /repo/$m && go test -vet=off -count=1 -timeout 25m "$@" ./...) || rc=1
done
exit $rc
