import json,sys
d=json.load(open(sys.argv[1]))
p=d['replay']['program']
print(d['rejection'])
for n in p['nodes']: print(' ',n['id'],n['kind'],'scope='+n['scope'],n['in'],n['out'],'dflt=',n['dflt'],n['writes'],n['evs'],n['attached'],n['intr'])
for f in p['flows']: print('  ',f['id'],f['src'],'->',f['dst'],f['cond']['k'],f['cond']['v'],f['cond']['c'])
print(p['vars0'])
for s in d['replay']['schedule']['steps']: print('STEP',s['op'],s['node'],s['occ'],s['vars'],s.get('kind'),s.get('pre'))
full = len(sys.argv)>2
for r in d['replay']['log']:
    if not full and r['ev'] in('visit','leave','newflow','boundary','instantiation'): continue
    print(r['ev'],r['node'],r['occ'],r['flows'],r['vars'],r['kind'],r['ok'],r['n'])
