package sched

import "sync"

// Observer lets a harness receive hook passages (point, args) in addition to
// the perturbation policy; used to record linearization points (tracer.take).
var (
	obsMu sync.Mutex
	obs   func(point string, args ...any)
)

func SetObserver(f func(point string, args ...any)) {
	obsMu.Lock()
	obs = f
	obsMu.Unlock()
}

func observe(point string, args ...any) {
	obsMu.Lock()
	f := obs
	obsMu.Unlock()
	if f != nil {
		f(point, args...)
	}
}
