// Package sched installs the verification hook of the instrumented packages
// (build tag verif) and uses it to perturb goroutine schedules: seeded random
// delays at hook points, or a single long hold of the k-th passage through
// one point.  Perturbation can only widen race windows; it never feeds a
// verdict.
package sched

import (
	"hash/fnv"
	"os"
	"strconv"
	"strings"
	"sync"
	"time"

	bpmn "github.com/olive-io/bpmn/v2"
	"github.com/olive-io/bpmn/v2/pkg/tracing"
)

// Points that single-hold policies choose from.
var Points = []string{
	"process.start.triggered", "process.monitor.create", "process.monitor.started", "process.monitor.cease", "process.wait.locked",
	"tasktrace.do.checked", "tasktrace.process.responded", "harness.request",
	"flow.action", "flow.flowtrace", "flow.start",
	"evgw.determined", "evgw.withdraw", "or.tracker.trace", "or.trysync", "and.arrive", "xor.report",
	"catch.event", "catch.consume", "sub.ceased", "tracer.take", "tracer.deliver", "tracer.subscribe",
	"pset.watch.subscribe", "pset.run.done",
}

type Policy struct {
	Mode      int     // 0 none, 1 random delays, 2 single hold, 3 every passage of the hold points is held
	Seed      int64   //
	P         float64 // probability of a delay at a point (mode 1)
	MaxUs     int     // maximum random delay in microseconds (mode 1)
	HoldPoint string  // mode 2
	HoldK     int     // mode 2: which passage (1-based)
	HoldUs    int     // mode 2, 3: how long
	HoldSet   []string // mode 3: the points held at every passage
}

var (
	mu   sync.Mutex
	cur  Policy
	occ  map[string]int
	seen map[string]int // all points passed since the last Install (for evidence)
)

func h64(seed int64, s string, k int) uint64 {
	h := fnv.New64a()
	var b [16]byte
	for i := 0; i < 8; i++ {
		b[i] = byte(seed >> (8 * i))
		b[8+i] = byte(k >> (8 * i))
	}
	h.Write(b[:])
	h.Write([]byte(s))
	return h.Sum64()
}

func hook(point string, args ...any) {
	observe(point, args...)
	mu.Lock()
	occ[point]++
	seen[point]++
	k := occ[point]
	p := cur
	mu.Unlock()
	switch p.Mode {
	case 1:
		x := h64(p.Seed, point, k)
		if float64(x%10000)/10000.0 < p.P {
			max := p.MaxUs
			if max <= 0 {
				max = 1500
			}
			d := 20 + int((x>>20)%uint64(max))
			time.Sleep(time.Duration(d) * time.Microsecond)
		}
	case 3:
		for _, h := range p.HoldSet {
			if h == point {
				time.Sleep(time.Duration(p.HoldUs) * time.Microsecond)
			}
		}
	case 2:
		if point == p.HoldPoint && k == p.HoldK {
			us := p.HoldUs
			if us <= 0 {
				us = 5000
			}
			time.Sleep(time.Duration(us) * time.Microsecond)
		}
	}
}

var installed bool

// Install sets the policy for subsequent engine activity in this process.
func Install(p Policy) {
	mu.Lock()
	cur = p
	occ = map[string]int{}
	if seen == nil {
		seen = map[string]int{}
	}
	mu.Unlock()
	if !installed {
		f := hook
		bpmn.VerifHook.Store(&f)
		tracing.VerifHook.Store(&f)
		installed = true
	}
}

// Seen returns the hook points passed so far (evidence that hooks are live).
func Seen() map[string]int {
	mu.Lock()
	defer mu.Unlock()
	o := map[string]int{}
	for k, v := range seen {
		o[k] = v
	}
	return o
}

// ForRun derives the policy of one run from a job-level perturbation class.
//
//	0 none; 1 random delays; 2 single hold (point and passage drawn from the seed);
//	3 every passage of the given points held;
//	9 mixed: run index decides among the three.
func ForRun(class int, seed int64, run int, points []string) Policy {
	if len(points) == 0 {
		points = Points
	}
	// VERIF_HOLD=point:k[:us] forces a single-hold policy (experiments, replays)
	if v := os.Getenv("VERIF_HOLD"); v != "" {
		parts := strings.Split(v, ":")
		p := Policy{Mode: 2, HoldPoint: parts[0], HoldK: 1, HoldUs: 5000}
		if len(parts) > 1 {
			p.HoldK, _ = strconv.Atoi(parts[1])
		}
		if len(parts) > 2 {
			p.HoldUs, _ = strconv.Atoi(parts[2])
		}
		return p
	}
	x := h64(seed, "policy", run)
	switch class {
	case 1:
		return Policy{Mode: 1, Seed: seed + int64(run), P: 0.12, MaxUs: 1200}
	case 2:
		return Policy{Mode: 2, Seed: seed, HoldPoint: points[x%uint64(len(points))], HoldK: 1 + int((x>>16)%3), HoldUs: 4000}
	case 3:
		// every passage of the given points is held (1..4 ms, by run): everything that happens
		// behind those points is late with respect to the driver's next steps
		return Policy{Mode: 3, Seed: seed, HoldSet: points, HoldUs: 1000 * (1 + int(x>>16)%4)}
	case 9:
		return ForRun(int(x>>40)%3, seed, run, points)
	}
	return Policy{}
}
