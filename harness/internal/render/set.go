package render

import (
	"fmt"
	"sort"
	"strings"

	"github.com/olive-io/bpmn/schema"

	"verif/harness/internal/prog"
)

// SetMember is one process of a definitions document with several processes.
type SetMember struct {
	P    *prog.Program `json:"p"`
	Exec bool          `json:"exec"`
}

// MsgFlow links a throw event of one process to a start or catch event of another.
type MsgFlow struct {
	Src string `json:"src"`
	Dst string `json:"dst"`
}

// Prefixed returns a copy of p with every node / flow id prefixed.
func Prefixed(p *prog.Program, pre string) *prog.Program {
	q := *p
	q.Nodes = nil
	q.Flows = nil
	for _, n := range p.Nodes {
		m := n
		m.Id = pre + n.Id
		if n.Scope != "" {
			m.Scope = pre + n.Scope
		}
		if n.Default != "" {
			m.Default = pre + n.Default
		}
		if n.Attached != "" {
			m.Attached = pre + n.Attached
		}
		m.In = nil
		for _, f := range n.In {
			m.In = append(m.In, pre+f)
		}
		m.Out = nil
		for _, f := range n.Out {
			m.Out = append(m.Out, pre+f)
		}
		q.Nodes = append(q.Nodes, m)
	}
	for _, f := range p.Flows {
		g := f
		g.Id, g.Src, g.Dst = pre+f.Id, pre+f.Src, pre+f.Dst
		q.Flows = append(q.Flows, g)
	}
	q.Name = pre + p.Name
	q.Normalize()
	return &q
}

// SetXML renders several processes (ids must already be distinct) and the
// message flows between them into one definitions document.
func SetXML(ms []SetMember, flows []MsgFlow) string {
	var w strings.Builder
	w.WriteString(`<?xml version="1.0" encoding="UTF-8"?>` + "\n")
	fmt.Fprintf(&w, `<bpmn:definitions xmlns:bpmn="http://www.omg.org/spec/BPMN/20100524/MODEL" xmlns:xsi="http://www.w3.org/2001/XMLSchema-instance" xmlns:olive="http://olive.io/spec/BPMN/MODEL" id="Definitions_set" targetNamespace="http://bpmn.io/schema/bpmn" expressionLanguage="%s">`+"\n", ExprLang)
	if len(flows) > 0 {
		w.WriteString("  <bpmn:collaboration id=\"collab\">\n")
		for i, m := range ms {
			fmt.Fprintf(&w, "    <bpmn:participant id=\"part%d\" processRef=\"proc_%s\"/>\n", i, esc(m.P.Name))
		}
		for i, f := range flows {
			fmt.Fprintf(&w, "    <bpmn:messageFlow id=\"mf%d\" sourceRef=\"%s\" targetRef=\"%s\"/>\n", i, esc(f.Src), esc(f.Dst))
		}
		w.WriteString("  </bpmn:collaboration>\n")
	}
	refs := map[string]string{}
	for _, m := range ms {
		fmt.Fprintf(&w, "  <bpmn:process id=\"proc_%s\" name=\"%s\" isExecutable=\"%v\">\n", esc(m.P.Name), esc(m.P.Name), m.Exec)
		scope(m.P, "", &w, "    ", Options{})
		w.WriteString("  </bpmn:process>\n")
		for _, n := range m.P.Nodes {
			for _, e := range n.Evs {
				if e.K == "signal" || e.K == "message" {
					refs[e.Ref] = e.K
				}
			}
		}
	}
	names := make([]string, 0, len(refs))
	for r := range refs {
		names = append(names, r)
	}
	sort.Strings(names)
	for _, r := range names {
		k := refs[r]
		if k == "signal" {
			fmt.Fprintf(&w, "  <bpmn:signal id=\"%s\" name=\"%s\"/>\n", esc(r), esc(r))
		} else {
			fmt.Fprintf(&w, "  <bpmn:message id=\"%s\" name=\"%s\"/>\n", esc(r), esc(r))
		}
	}
	w.WriteString("</bpmn:definitions>\n")
	return w.String()
}

func SetDefinitions(ms []SetMember, flows []MsgFlow) (*schema.Definitions, error) {
	return schema.Parse([]byte(SetXML(ms, flows)))
}
