// Package render turns a prog.Program into BPMN 2.0 XML text understood by
// schema.Parse.
package render

import (
	"encoding/xml"
	"fmt"
	"sort"
	"strings"

	"github.com/olive-io/bpmn/schema"

	"verif/harness/internal/prog"
)

const ExprLang = "https://github.com/expr-lang/expr"
const XPathLang = "http://www.w3.org/1999/XPath"

type Options struct {
	Lang string // expression language of formal conditions ("" = expr)
	// Rich: additionally emit everything the round-trip property quantifies over and that the
	// plain rendering leaves out: documentation texts, olive task headers and properties (typed,
	// untyped, value-less, with references), formal expressions carrying further attributes (id,
	// language) before or after xsi:type, and text payloads whose meaning depends on inner
	// whitespace (a conjunct that is true only if two consecutive blanks survive).
	Rich bool
}

// WsGuard is a formal (expr-lang) conjunct that holds iff the two blanks inside the first
// string literal are preserved.
const WsGuard = ` && "a  b" != "a b"`

var tag = map[string]string{
	"start": "startEvent", "end": "endEvent", "task": "serviceTask", "xor": "exclusiveGateway",
	"and": "parallelGateway", "or": "inclusiveGateway", "evgw": "eventBasedGateway",
	"catch": "intermediateCatchEvent", "throw": "intermediateThrowEvent", "sub": "subProcess",
	"boundary": "boundaryEvent",
}

func esc(s string) string {
	var b strings.Builder
	_ = xml.EscapeText(&b, []byte(s))
	return b.String()
}

// CondText renders a predicate in the given language.
func CondText(c prog.Cond, lang string) string {
	xp := lang == XPathLang
	v := c.V
	if xp {
		v = "$" + c.V
	}
	op := map[string]string{"lt": "<", "le": "<=", "eq": "==", "ne": "!=", "ge": ">=", "gt": ">"}[c.K]
	if xp && c.K == "eq" {
		op = "="
	}
	switch c.K {
	case "true":
		if xp {
			return "true()"
		}
		return "true"
	case "false":
		if xp {
			return "false()"
		}
		return "false"
	case "informal":
		return "some informal text"
	}
	return fmt.Sprintf("%s %s %d", v, op, c.C)
}

func evdefs(n *prog.Node, w *strings.Builder, ind string) {
	for _, e := range n.Evs {
		switch e.K {
		case "signal":
			fmt.Fprintf(w, "%s<bpmn:signalEventDefinition signalRef=\"%s\"/>\n", ind, esc(e.Ref))
		case "message":
			fmt.Fprintf(w, "%s<bpmn:messageEventDefinition messageRef=\"%s\"/>\n", ind, esc(e.Ref))
		case "timer":
			// Ref is an ISO-8601 expression; prefix selects the kind: D:duration T:date C:cycle
			kind, val := "timeDuration", e.Ref
			if strings.HasPrefix(e.Ref, "T:") {
				kind, val = "timeDate", e.Ref[2:]
			} else if strings.HasPrefix(e.Ref, "C:") {
				kind, val = "timeCycle", e.Ref[2:]
			} else if strings.HasPrefix(e.Ref, "D:") {
				val = e.Ref[2:]
			}
			fmt.Fprintf(w, "%s<bpmn:timerEventDefinition><bpmn:%s xsi:type=\"bpmn:tFormalExpression\">%s</bpmn:%s></bpmn:timerEventDefinition>\n",
				ind, kind, esc(val), kind)
		}
	}
}

func scope(p *prog.Program, sc string, w *strings.Builder, ind string, o Options) {
	for i := range p.Nodes {
		n := &p.Nodes[i]
		if n.Scope != sc {
			continue
		}
		t := tag[n.Kind]
		attrs := fmt.Sprintf(" id=\"%s\" name=\"%s\"", esc(n.Id), esc(n.Id))
		if n.Default != "" {
			attrs += fmt.Sprintf(" default=\"%s\"", esc(n.Default))
		}
		if n.Kind == "boundary" {
			attrs += fmt.Sprintf(" attachedToRef=\"%s\" cancelActivity=\"%v\"", esc(n.Attached), n.Intr)
		}
		if n.Parallel {
			attrs += " parallelMultiple=\"true\""
		}
		fmt.Fprintf(w, "%s<bpmn:%s%s>\n", ind, t, attrs)
		if o.Rich && (n.Kind == "task" || n.Kind == "xor" || n.Kind == "end") {
			fmt.Fprintf(w, "%s  <bpmn:documentation>about %s:  two blanks,\n%s  a line break and a &lt;tag&gt;</bpmn:documentation>\n", ind, esc(n.Id), ind)
		}
		if n.Kind == "task" {
			fmt.Fprintf(w, "%s  <bpmn:extensionElements>\n", ind)
			if o.Rich {
				fmt.Fprintf(w, "%s    <olive:taskHeaders>\n%s      <olive:header name=\"contentType\" value=\"application/json\" type=\"string\"/>\n%s      <olive:header name=\"plain\" value=\"v  1\"/>\n%s    </olive:taskHeaders>\n", ind, ind, ind, ind)
				fmt.Fprintf(w, "%s    <olive:properties>\n%s      <olive:property name=\"pa\" value=\"1\" type=\"integer\"/>\n%s      <olive:property name=\"pn\" value=\"\"/>\n%s      <olive:property name=\"po\" value=\"{&#34;k&#34;: &#34;v&#34;}\" type=\"object\"/>\n%s      <olive:property name=\"pr\" value=\"\" type=\"string\" ref=\"$nosuch.path\"/>\n%s    </olive:properties>\n", ind, ind, ind, ind, ind, ind)
			}
			fmt.Fprintf(w, "%s    <olive:taskDefinition type=\"service\" retries=\"%d\"/>\n", ind, n.Retries)
			if len(n.Writes) > 0 {
				fmt.Fprintf(w, "%s    <olive:results>\n", ind)
				for _, v := range n.Writes {
					fmt.Fprintf(w, "%s      <olive:field name=\"%s\" type=\"integer\"/>\n", ind, esc(v))
				}
				fmt.Fprintf(w, "%s    </olive:results>\n", ind)
			}
			fmt.Fprintf(w, "%s    <olive:dataOutput name=\"obj\" targetRef=\"obj\"/>\n", ind)
			fmt.Fprintf(w, "%s  </bpmn:extensionElements>\n", ind)
		}
		for _, f := range n.In {
			fmt.Fprintf(w, "%s  <bpmn:incoming>%s</bpmn:incoming>\n", ind, esc(f))
		}
		for _, f := range n.Out {
			fmt.Fprintf(w, "%s  <bpmn:outgoing>%s</bpmn:outgoing>\n", ind, esc(f))
		}
		evdefs(n, w, ind+"  ")
		if n.Kind == "sub" {
			scope(p, n.Id, w, ind+"  ", o)
		}
		fmt.Fprintf(w, "%s</bpmn:%s>\n", ind, t)
	}
	// (a program tagged "flows-reversed" has its sequenceFlow elements written in reverse: the order
	// in which a node takes its outgoing flows is the order of its <outgoing> children, not the
	// document order of the flows)
	flows := p.Flows
	if p.HasTag("flows-reversed") {
		flows = make([]prog.Flow, 0, len(p.Flows))
		for i := len(p.Flows) - 1; i >= 0; i-- {
			flows = append(flows, p.Flows[i])
		}
	}
	for _, f := range flows {
		src := p.Node(f.Src)
		fsc := src.Scope
		if fsc != sc {
			continue
		}
		switch f.Cond.K {
		case "none", "":
			fmt.Fprintf(w, "%s<bpmn:sequenceFlow id=\"%s\" sourceRef=\"%s\" targetRef=\"%s\"/>\n", ind, esc(f.Id), esc(f.Src), esc(f.Dst))
		case "informal":
			fmt.Fprintf(w, "%s<bpmn:sequenceFlow id=\"%s\" sourceRef=\"%s\" targetRef=\"%s\"><bpmn:conditionExpression>%s</bpmn:conditionExpression></bpmn:sequenceFlow>\n",
				ind, esc(f.Id), esc(f.Src), esc(f.Dst), esc(CondText(f.Cond, o.Lang)))
		default:
			lang := ""
			if o.Lang != "" && o.Lang != ExprLang {
				lang = fmt.Sprintf(" language=\"%s\"", esc(o.Lang))
			}
			if o.Rich && (o.Lang == "" || o.Lang == ExprLang) {
				// further attributes around xsi:type (alternating sides), whitespace-sensitive text
				pre, post := "", fmt.Sprintf(" id=\"ce_%s\" language=\"%s\"", esc(f.Id), ExprLang)
				if len(f.Id)%2 == 0 {
					pre, post = strings.TrimPrefix(post, " ")+" ", ""
				}
				fmt.Fprintf(w, "%s<bpmn:sequenceFlow id=\"%s\" sourceRef=\"%s\" targetRef=\"%s\"><bpmn:conditionExpression %sxsi:type=\"bpmn:tFormalExpression\"%s>%s</bpmn:conditionExpression></bpmn:sequenceFlow>\n",
					ind, esc(f.Id), esc(f.Src), esc(f.Dst), pre, post, esc(CondText(f.Cond, o.Lang)+WsGuard))
				continue
			}
			fmt.Fprintf(w, "%s<bpmn:sequenceFlow id=\"%s\" sourceRef=\"%s\" targetRef=\"%s\"><bpmn:conditionExpression xsi:type=\"bpmn:tFormalExpression\"%s>%s</bpmn:conditionExpression></bpmn:sequenceFlow>\n",
				ind, esc(f.Id), esc(f.Src), esc(f.Dst), lang, esc(CondText(f.Cond, o.Lang)))
		}
	}
}

// XML renders the program as a definitions document with one executable process.
func XML(p *prog.Program, o Options) string {
	var w strings.Builder
	w.WriteString(`<?xml version="1.0" encoding="UTF-8"?>` + "\n")
	fmt.Fprintf(&w, `<bpmn:definitions xmlns:bpmn="http://www.omg.org/spec/BPMN/20100524/MODEL" xmlns:bpmndi="http://www.omg.org/spec/BPMN/20100524/DI" xmlns:dc="http://www.omg.org/spec/DD/20100524/DC" xmlns:di="http://www.omg.org/spec/DD/20100524/DI" xmlns:xsi="http://www.w3.org/2001/XMLSchema-instance" xmlns:olive="http://olive.io/spec/BPMN/MODEL" id="Definitions_%s" targetNamespace="http://bpmn.io/schema/bpmn" expressionLanguage="%s">`+"\n", esc(p.Name), ExprLang)
	refs := map[string]string{}
	for _, n := range p.Nodes {
		for _, e := range n.Evs {
			if e.K == "signal" || e.K == "message" {
				refs[e.Ref] = e.K
			}
		}
	}
	for _, n := range p.Nodes {
		_ = n
	}
	fmt.Fprintf(&w, "  <bpmn:process id=\"proc_%s\" name=\"%s\" isExecutable=\"true\">\n", esc(p.Name), esc(p.Name))
	scope(p, "", &w, "    ", o)
	w.WriteString("  </bpmn:process>\n")
	names := make([]string, 0, len(refs))
	for r := range refs {
		names = append(names, r)
	}
	sort.Strings(names)
	for _, r := range names {
		k := refs[r]
		if k == "signal" {
			fmt.Fprintf(&w, "  <bpmn:signal id=\"%s\" name=\"%s\"/>\n", esc(r), esc(r))
		} else {
			fmt.Fprintf(&w, "  <bpmn:message id=\"%s\" name=\"%s\"/>\n", esc(r), esc(r))
		}
	}
	w.WriteString("</bpmn:definitions>\n")
	return w.String()
}

// Definitions renders and parses.
func Definitions(p *prog.Program, o Options) (*schema.Definitions, error) {
	return schema.Parse([]byte(XML(p, o)))
}
