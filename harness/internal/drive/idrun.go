package drive

import (
	"context"
	"sync"

	"github.com/olive-io/bpmn/v2/pkg/id"
	"github.com/olive-io/bpmn/v2/pkg/tracing"
)

// IdRec is one record of an identifier run (C20).
type IdRec struct {
	Run  int    `json:"run"`
	Ev   string `json:"ev"`
	G    string `json:"g"`
	From string `json:"from"`
	Kind string `json:"kind"` // sno | fallback
	Id   string `json:"id"`
	Part int    `json:"part"`
	Ts   int64  `json:"ts"`
	Seq  int    `json:"seq"`
}

type IdScenario struct {
	Gens       int  `json:"gens"`       // sno generators alive at once
	Goroutines int  `json:"goroutines"` // per generator
	Draws      int  `json:"draws"`      // per goroutine
	Restores   int  `json:"restores"`   // snapshot/restore rounds per generator
	Fallback   int  `json:"fallback"`   // number of fallback generators
	Record     bool `json:"record"`     // record every draw (else only count and check distinctness in Go)
}

type IdResult struct {
	Log       []IdRec `json:"log"`
	Draws     int     `json:"draws"`
	Duplicate string  `json:"duplicate"` // first duplicate seen by the Go-side sweep ("" none)
}

// IdRun draws identifiers concurrently from real generators.
func IdRun(run int, sc IdScenario) IdResult {
	var mu sync.Mutex
	var res IdResult
	seen := map[string]bool{}
	add := func(r IdRec) { r.Run = run; res.Log = append(res.Log, r) }
	ctx, cancel := context.WithCancel(context.Background())
	defer cancel()
	tr := tracing.NewTracer(ctx)
	add(IdRec{Ev: "init"})
	// sweep mode (no per-draw record): every goroutine keeps what it drew to itself, nothing is
	// shared while drawing (a lock here would serialise the goroutines and hide races inside the
	// generator); distinctness is established afterwards
	var locals [][]string
	var localsMu sync.Mutex
	collector := func() func(x id.Id) {
		buf := make([]string, 0, sc.Draws)
		localsMu.Lock()
		idx := len(locals)
		locals = append(locals, nil)
		localsMu.Unlock()
		return func(x id.Id) {
			buf = append(buf, x.String())
			if len(buf) == sc.Draws {
				localsMu.Lock()
				locals[idx] = buf
				localsMu.Unlock()
			}
		}
	}
	record := func(g string, kind string, x id.Id) {
		s := x.String()
		mu.Lock()
		res.Draws++
		if seen[s] && res.Duplicate == "" {
			res.Duplicate = s
		}
		seen[s] = true
		if sc.Record {
			r := IdRec{Ev: "new", G: g, Kind: kind, Id: s}
			if sid, ok := x.(*id.SnoId); ok {
				p := sid.ID.Partition()
				r.Part = int(p[0])<<8 | int(p[1])
				r.Ts = sid.ID.Timestamp()
				r.Seq = int(sid.ID.Sequence())
			}
			add(r)
		}
		mu.Unlock()
	}
	var wg sync.WaitGroup
	for gi := 0; gi < sc.Gens; gi++ {
		name := string(rune('A' + gi))
		gen, err := id.GetSno().NewIdGenerator(ctx, tr)
		if err != nil {
			mu.Lock()
			add(IdRec{Ev: "infra", Id: err.Error()})
			mu.Unlock()
			continue
		}
		mu.Lock()
		add(IdRec{Ev: "newgen", G: name})
		mu.Unlock()
		wg.Add(1)
		go func() {
			defer wg.Done()
			cur := gen
			curName := name
			for round := 0; round <= sc.Restores; round++ {
				var inner sync.WaitGroup
				for k := 0; k < sc.Goroutines; k++ {
					inner.Add(1)
					go func() {
						defer inner.Done()
						if !sc.Record {
							put := collector()
							for d := 0; d < sc.Draws; d++ {
								put(cur.New())
							}
							return
						}
						for d := 0; d < sc.Draws; d++ {
							record(curName, "sno", cur.New())
						}
					}()
				}
				inner.Wait()
				if round < sc.Restores {
					snap, err := cur.Snapshot()
					if err != nil {
						return
					}
					next, err := id.GetSno().RestoreIdGenerator(ctx, snap, tr)
					if err != nil {
						mu.Lock()
						add(IdRec{Ev: "infra", Id: err.Error()})
						mu.Unlock()
						return
					}
					nn := curName + "'"
					mu.Lock()
					add(IdRec{Ev: "restore", G: nn, From: curName})
					mu.Unlock()
					cur, curName = next, nn
				}
			}
		}()
	}
	for fi := 0; fi < sc.Fallback; fi++ {
		name := "F" + string(rune('0'+fi))
		g := id.NewFallbackGenerator()
		wg.Add(1)
		go func() {
			defer wg.Done()
			var inner sync.WaitGroup
			for k := 0; k < sc.Goroutines; k++ {
				inner.Add(1)
				go func() {
					defer inner.Done()
					if !sc.Record {
						put := collector()
						for d := 0; d < sc.Draws; d++ {
							put(g.New())
						}
						return
					}
					for d := 0; d < sc.Draws; d++ {
						record(name, "fallback", g.New())
					}
				}()
			}
			inner.Wait()
		}()
	}
	wg.Wait()
	for _, l := range locals {
		for _, s := range l {
			res.Draws++
			if seen[s] && res.Duplicate == "" {
				res.Duplicate = s
			}
			seen[s] = true
		}
	}
	mu.Lock()
	add(IdRec{Ev: "end"})
	mu.Unlock()
	return res
}
