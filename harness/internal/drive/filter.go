package drive

import "verif/harness/internal/prog"

// FilterTG projects a full observation log onto the records the TokenGame
// trace specification explains.  Everything dropped here is engine
// book-keeping that no token-game move corresponds to (visit/leave/new-flow
// /flow/termination traces are checked by TraceGrammar instead).
func FilterTG(p *prog.Program, log []Rec) []Rec {
	out := make([]Rec, 0, len(log))
	for _, r := range log {
		switch r.Ev {
		case "init", "started", "req", "ans", "again", "error", "cease", "fin", "wait", "timeout", "blocked",
			"observed", "deliver", "deliverx", "delivered", "cancel", "infra", "other", "cand", "ansc", "crash", "determination",
			"waitret", "tracerdone", "subclosed", "census", "roundtrip", "postdeliver":
			out = append(out, r)
		case "visit":
			// arrival at intermediate catch events only (boundary listeners
			// are armed by the host activity, not by a token)
			if n := p.Node(r.Node); n != nil && n.Kind == "catch" {
				out = append(out, r)
			}
		case "listening":
			if n := p.Node(r.Node); n != nil && (n.Kind == "catch" || n.Kind == "boundary") {
				out = append(out, r)
			}
		case "completion":
			if n := p.Node(r.Node); n != nil && n.Kind == "end" && n.Scope == "" {
				r.Ev = "end"
				out = append(out, r)
			}
		}
	}
	return out
}

// FilterEngine projects a full observation log onto the records EngineTrace
// (level M) explains: the engine's own flow-level traces and the driver's
// actions.  visit / leave traces carry no information the flow trace does not
// (the model emits them inside the same action).
func FilterEngine(p *prog.Program, log []Rec) []Rec {
	out := make([]Rec, 0, len(log))
	for _, r := range log {
		switch r.Ev {
		case "init", "started", "newflow", "flow", "termination", "completion", "req", "ans", "error", "cease",
			"ifp", "wait", "fin", "timeout", "blocked", "crash", "infra", "other":
			out = append(out, r)
		}
	}
	return out
}
