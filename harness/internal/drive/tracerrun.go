package drive

import (
	"context"
	"math/rand"
	"sync"
	"time"

	"github.com/olive-io/bpmn/v2/pkg/tracing"

	"verif/harness/internal/sched"
)

// TRec is one record of a tracer run (C09).
type TRec struct {
	Run int    `json:"run"`
	Ev  string `json:"ev"`
	S   string `json:"s"`
	P   int    `json:"p"`
	K   int    `json:"k"`
}

type tmsg struct{ P, K int }

func (m tmsg) Unpack() any { return m }

// TracerScenario parameterises one run of the real tracer.
type TracerScenario struct {
	Senders int   `json:"senders"`
	NMsg    int   `json:"nmsg"`
	Caps    []int `json:"caps"`   // one subscriber per entry: channel capacity
	JoinAt  []int `json:"join"`   // subscribe once that many traces were taken (0: before any send)
	LeaveAt []int `json:"leave"`  // unsubscribe once that many traces were taken (-1: never)
	SlowUs  []int `json:"slowus"` // consumer delay per received trace
	Cancel  bool  `json:"cancel"` // cancel the context at the end and wait for termination
	// CancelAt >= 0: cancel the context already when that many traces have been taken
	// (senders are still active; subscribing and unsubscribing must keep working)
	CancelAt int   `json:"cancel_at"`
	Seed     int64 `json:"seed"`
}

// TracerRun drives pkg/tracing's tracer with concurrent senders and
// subscribers that join and leave, and records every call/return, every
// receipt and (through the verif hook) the order in which the tracer took the
// traces, all under one mutex.
func TracerRun(run int, sc TracerScenario) []TRec {
	var mu sync.Mutex
	var log []TRec
	taken := 0
	cond := sync.NewCond(&mu)
	add := func(r TRec) { r.Run = run; log = append(log, r) }

	sched.SetObserver(func(point string, args ...any) {
		if point == "tracer.take" && len(args) == 1 {
			if m, ok := args[0].(tmsg); ok {
				mu.Lock()
				add(TRec{Ev: "take", P: m.P, K: m.K})
				taken++
				cond.Broadcast()
				mu.Unlock()
			}
		}
	})
	defer sched.SetObserver(nil)

	ctx, cancel := context.WithCancel(context.Background())
	defer cancel()
	tr := tracing.NewTracer(ctx)
	rng := rand.New(rand.NewSource(sc.Seed))
	mu.Lock()
	add(TRec{Ev: "init", P: sc.Senders, K: sc.NMsg})
	mu.Unlock()

	waitTaken := func(n int) {
		mu.Lock()
		for taken < n {
			cond.Wait()
		}
		mu.Unlock()
	}
	total := sc.Senders * sc.NMsg
	var subsWG sync.WaitGroup
	stopConsume := make([]chan struct{}, len(sc.Caps))
	for i := range sc.Caps {
		i := i
		name := string(rune('a' + i))
		stopConsume[i] = make(chan struct{})
		subsWG.Add(1)
		go func() {
			defer subsWG.Done()
			if sc.JoinAt[i] > 0 {
				waitTaken(min(sc.JoinAt[i], total))
			}
			ch := make(chan tracing.ITrace, sc.Caps[i])
			mu.Lock()
			add(TRec{Ev: "sub_call", S: name})
			mu.Unlock()
			if !callWithin(5*time.Second, func() { tr.SubscribeChannel(ch) }) {
				mu.Lock()
				add(TRec{Ev: "blocked", S: name})
				mu.Unlock()
				return
			}
			mu.Lock()
			add(TRec{Ev: "sub_ret", S: name})
			mu.Unlock()
			consumerDone := make(chan struct{})
			go func() {
				defer close(consumerDone)
				for {
					select {
					case t, ok := <-ch:
						if !ok {
							mu.Lock()
							add(TRec{Ev: "closed", S: name})
							mu.Unlock()
							return
						}
						if m, ok := t.(tmsg); ok {
							mu.Lock()
							add(TRec{Ev: "recv", S: name, P: m.P, K: m.K})
							mu.Unlock()
						}
						if sc.SlowUs[i] > 0 {
							time.Sleep(time.Duration(sc.SlowUs[i]) * time.Microsecond)
						}
					case <-stopConsume[i]:
						return
					case <-tr.Done():
						// the tracer has terminated: a subscribed channel has been closed
						// (after its last trace); a channel that is neither closed nor
						// holding anything was never subscribed (subscription after termination)
						select {
						case t, ok := <-ch:
							if !ok {
								mu.Lock()
								add(TRec{Ev: "closed", S: name})
								mu.Unlock()
								return
							}
							if m, ok := t.(tmsg); ok {
								mu.Lock()
								add(TRec{Ev: "recv", S: name, P: m.P, K: m.K})
								mu.Unlock()
							}
						default:
							return
						}
					}
				}
			}()
			if sc.LeaveAt[i] >= 0 {
				waitTaken(min(sc.LeaveAt[i], total))
				mu.Lock()
				add(TRec{Ev: "unsub_call", S: name})
				mu.Unlock()
				// the consumer stops; Unsubscribe drains what is left
				close(stopConsume[i])
				<-consumerDone
				if !callWithin(5*time.Second, func() { tr.Unsubscribe(ch) }) {
					mu.Lock()
					add(TRec{Ev: "blocked", S: name})
					mu.Unlock()
					return
				}
				mu.Lock()
				add(TRec{Ev: "unsub_ret", S: name})
				mu.Unlock()
				return
			}
			<-consumerDone
		}()
	}
	// subscribers that join before any send must be in before the senders start
	time.Sleep(2 * time.Millisecond)
	earlyCancelled := false
	if sc.Cancel && sc.CancelAt >= 0 {
		earlyCancelled = true
		go func() {
			waitTaken(min(sc.CancelAt, total))
			mu.Lock()
			add(TRec{Ev: "cancel"})
			mu.Unlock()
			cancel()
		}()
	}
	var sendWG sync.WaitGroup
	for p := 1; p <= sc.Senders; p++ {
		p := p
		h := tr.RegisterSender()
		sendWG.Add(1)
		jitter := rng.Intn(200)
		go func() {
			defer sendWG.Done()
			defer h.Done()
			for k := 1; k <= sc.NMsg; k++ {
				mu.Lock()
				add(TRec{Ev: "send_call", P: p, K: k})
				mu.Unlock()
				tr.Send(tmsg{P: p, K: k})
				mu.Lock()
				add(TRec{Ev: "send_ret", P: p, K: k})
				mu.Unlock()
				if jitter > 100 {
					time.Sleep(time.Duration(jitter) * time.Microsecond)
				}
			}
		}()
	}
	sendersDone := make(chan struct{})
	go func() { sendWG.Wait(); close(sendersDone) }()
	select {
	case <-sendersDone:
	case <-time.After(10 * time.Second):
		mu.Lock()
		add(TRec{Ev: "blocked", S: "senders"})
		mu.Unlock()
		return snapshot(&mu, &log)
	}
	// let the consumers drain
	deadline := time.Now().Add(5 * time.Second)
	for time.Now().Before(deadline) {
		mu.Lock()
		n := len(log)
		mu.Unlock()
		time.Sleep(15 * time.Millisecond)
		mu.Lock()
		same := n == len(log)
		mu.Unlock()
		if same {
			break
		}
	}
	mu.Lock()
	add(TRec{Ev: "quiet"})
	mu.Unlock()
	if sc.Cancel {
		if !earlyCancelled {
			mu.Lock()
			add(TRec{Ev: "cancel"})
			mu.Unlock()
			cancel()
		}
		select {
		case <-tr.Done():
			mu.Lock()
			add(TRec{Ev: "done"})
			mu.Unlock()
		case <-time.After(5 * time.Second):
			mu.Lock()
			add(TRec{Ev: "blocked", S: "terminate"})
			mu.Unlock()
			return snapshot(&mu, &log)
		}
		fin := make(chan struct{})
		go func() { subsWG.Wait(); close(fin) }()
		select {
		case <-fin:
		case <-time.After(5 * time.Second):
			mu.Lock()
			add(TRec{Ev: "blocked", S: "subscribers"})
			mu.Unlock()
			return snapshot(&mu, &log)
		}
	} else {
		for i := range sc.Caps {
			if sc.LeaveAt[i] < 0 {
				close(stopConsume[i])
			}
		}
		subsWG.Wait()
	}
	mu.Lock()
	add(TRec{Ev: "end"})
	mu.Unlock()
	return snapshot(&mu, &log)
}

func snapshot(mu *sync.Mutex, log *[]TRec) []TRec {
	mu.Lock()
	defer mu.Unlock()
	return append([]TRec(nil), (*log)...)
}

func min(a, b int) int {
	if a < b {
		return a
	}
	return b
}
