package drive

import (
	"bytes"
	"encoding/json"
)

// IntMap decodes a JSON object of ints; TLC serialises the empty function as
// [] instead of {}, which is accepted as empty.
type IntMap map[string]int

func (m *IntMap) UnmarshalJSON(b []byte) error {
	b = bytes.TrimSpace(b)
	if len(b) > 0 && b[0] == '[' {
		*m = IntMap{}
		return nil
	}
	x := map[string]int{}
	if err := json.Unmarshal(b, &x); err != nil {
		return err
	}
	*m = x
	return nil
}

// tlcCnt is the nested counter record written by TokenGameExport!Cnt.
type tlcCnt struct {
	Req    IntMap `json:"req"`
	End    IntMap `json:"end"`
	Err    IntMap `json:"err"`
	Listen IntMap `json:"listen"`
	Arm    IntMap `json:"arm"`
	Cease  int    `json:"cease"`
}

func (c tlcCnt) flat() map[string]int {
	o := map[string]int{}
	for k, v := range c.Req {
		if v > 0 {
			o["req:"+k] = v
		}
	}
	for k, v := range c.End {
		if v > 0 {
			o["end:"+k] = v
		}
	}
	for k, v := range c.Err {
		if v > 0 {
			o["err:"+k] = v
		}
	}
	for k, v := range c.Listen {
		if v > 0 {
			o["listen:"+k] = v
		}
	}
	// soft precondition (known through a verification hook only): see Run
	for k, v := range c.Arm {
		if v > 0 {
			o["arm:"+k] = v
			// the visit trace of each of those tokens must have been LOGGED as well (the hook
			// fires in real time, the trace reaches the log a little later)
			o["visit:"+k] = v
		}
	}
	if c.Cease > 0 {
		o["cease"] = c.Cease
	}
	return o
}

type tlcStep struct {
	Op    string   `json:"op"`
	Node  string   `json:"node"`
	Occ   int      `json:"occ"`
	Vars  IntMap   `json:"vars"`
	Kind  string   `json:"kind"`
	N     int      `json:"n"`
	Pre   tlcCnt   `json:"pre"`
	Cands []IntMap `json:"cands"`
	Evs   []EvRef  `json:"evs"`
}

type tlcSched struct {
	Prog   int       `json:"prog"`
	Steps  []tlcStep `json:"steps"`
	Expect string    `json:"expect"`
	Final  tlcCnt    `json:"final"`
}

// ParseTLCSchedule converts one line written by a TLC export spec.
func ParseTLCSchedule(line []byte) (*Schedule, error) {
	var t tlcSched
	if err := json.Unmarshal(line, &t); err != nil {
		return nil, err
	}
	s := &Schedule{Prog: t.Prog, Expect: t.Expect, Final: t.Final.flat()}
	for _, st := range t.Steps {
		step := Step{Op: st.Op, Node: st.Node, Occ: st.Occ, Vars: map[string]int(st.Vars),
			Kind: st.Kind, N: st.N, Pre: st.Pre.flat()}
		for _, c := range st.Cands {
			step.Cands = append(step.Cands, map[string]int(c))
		}
		step.Evs = st.Evs
		s.Steps = append(s.Steps, step)
	}
	return s, nil
}
