package drive

import (
	"encoding/xml"
	"fmt"
	"strings"

	"github.com/olive-io/bpmn/schema"

	"verif/harness/internal/alpha"
)

// RoundTrip serialises defs, parses the result and compares:
//   - the re-parsed model with the original (equivalent model),
//   - the original after serialisation with a fresh parse of the source text
//     (serialising must not alter the model),
//   - every id of the model is retrievable by FindBy(ExactId).
//
// It returns the re-parsed model and a "roundtrip" record (Ok, Kind = first differences).
func RoundTrip(defs *schema.Definitions, sourceXML string) (*schema.Definitions, Rec) {
	rec := Rec{Ev: "roundtrip", Ok: true}
	var problems []string
	// A model built (or edited) through the Go API instead of parsed: olive items without a
	// type.  Serialising such a model must not write the default back into it.
	if untyped, n := untypedVariant(sourceXML); untyped != nil && n > 0 {
		before := alpha.Print(untyped)
		if _, err := xml.Marshal(untyped); err != nil {
			problems = append(problems, "marshal of the API-edited model: "+err.Error())
		} else if after := alpha.Print(untyped); after != before {
			problems = append(problems, "altered-by-marshal (model with untyped olive items): "+alpha.FirstDiff(before, after))
		}
	}
	before := alpha.Print(defs)
	out, err := xml.Marshal(defs)
	if err != nil {
		return nil, Rec{Ev: "roundtrip", Ok: false, Kind: "marshal: " + err.Error()}
	}
	if after := alpha.Print(defs); after != before {
		problems = append(problems, "altered-by-marshal: "+alpha.FirstDiff(before, after))
	}
	defs2, err := schema.Parse(out)
	if err != nil {
		return nil, Rec{Ev: "roundtrip", Ok: false, Kind: "re-parse: " + err.Error()}
	}
	for _, d := range alpha.Diff(defs, defs2, 4) {
		problems = append(problems, "reparsed"+d)
	}
	if sourceXML != "" {
		if fresh, err := schema.Parse([]byte(sourceXML)); err == nil {
			for _, d := range alpha.Diff(fresh, defs, 3) {
				problems = append(problems, "altered-by-marshal"+d)
			}
		}
	}
	ids := alpha.Ids(defs2)
	seen := map[string]bool{}
	for _, id := range ids {
		if seen[id] {
			continue
		}
		seen[id] = true
		if _, found := defs2.FindBy(schema.ExactId(id)); !found {
			problems = append(problems, "id not found by FindBy: "+id)
			if len(problems) > 8 {
				break
			}
		}
	}
	rec.N = len(seen)
	if len(problems) > 0 {
		rec.Ok = false
		rec.Kind = strings.Join(problems, " ; ")
		if len(rec.Kind) > 600 {
			rec.Kind = rec.Kind[:600]
		}
	}
	return defs2, rec
}

var _ = fmt.Sprintf

// untypedVariant parses the source again and blanks the type of every olive item that has the
// default type, which is what a model assembled through the Go API looks like (only
// Item.UnmarshalXML fills the default in).  Returns the model and the number of blanked items.
func untypedVariant(sourceXML string) (*schema.Definitions, int) {
	if sourceXML == "" {
		return nil, 0
	}
	defs, err := schema.Parse([]byte(sourceXML))
	if err != nil {
		return nil, 0
	}
	return defs, alpha.BlankDefaultItemTypes(defs)
}
