package drive

import (
	"encoding/xml"
	"fmt"
	"strings"

	"github.com/olive-io/bpmn/schema"

	"verif/harness/internal/alpha"
)

// RoundTrip serialises defs, parses the result and compares:
//   - the re-parsed model with the original (equivalent model),
//   - the original after serialisation with a fresh parse of the source text
//     (serialising must not alter the model),
//   - every id of the model is retrievable by FindBy(ExactId).
//
// It returns the re-parsed model and a "roundtrip" record (Ok, Kind = first differences).
func RoundTrip(defs *schema.Definitions, sourceXML string) (*schema.Definitions, Rec) {
	rec := Rec{Ev: "roundtrip", Ok: true}
	var problems []string
	out, err := xml.Marshal(defs)
	if err != nil {
		return nil, Rec{Ev: "roundtrip", Ok: false, Kind: "marshal: " + err.Error()}
	}
	defs2, err := schema.Parse(out)
	if err != nil {
		return nil, Rec{Ev: "roundtrip", Ok: false, Kind: "re-parse: " + err.Error()}
	}
	for _, d := range alpha.Diff(defs, defs2, 4) {
		problems = append(problems, "reparsed"+d)
	}
	if sourceXML != "" {
		if fresh, err := schema.Parse([]byte(sourceXML)); err == nil {
			for _, d := range alpha.Diff(fresh, defs, 3) {
				problems = append(problems, "altered-by-marshal"+d)
			}
		}
	}
	ids := alpha.Ids(defs2)
	seen := map[string]bool{}
	for _, id := range ids {
		if seen[id] {
			continue
		}
		seen[id] = true
		if _, found := defs2.FindBy(schema.ExactId(id)); !found {
			problems = append(problems, "id not found by FindBy: "+id)
			if len(problems) > 8 {
				break
			}
		}
	}
	rec.N = len(seen)
	if len(problems) > 0 {
		rec.Ok = false
		rec.Kind = strings.Join(problems, " ; ")
		if len(rec.Kind) > 600 {
			rec.Kind = rec.Kind[:600]
		}
	}
	return defs2, rec
}

var _ = fmt.Sprintf
