package drive

import (
	"context"
	"encoding/json"
	"fmt"
	"math"
	"reflect"
	"sync"
	"time"

	bpmn "github.com/olive-io/bpmn/v2"
	"github.com/olive-io/bpmn/v2/pkg/data"
	"github.com/olive-io/bpmn/v2/pkg/tracing"

	"github.com/olive-io/bpmn/schema"

	"verif/harness/internal/alpha"
)

// ValueScenario is one unit of C16 work executed in a worker process (so that a
// panic in the value layer or in an engine goroutine is attributed to it).
type ValueScenario struct {
	Type string `json:"type"` // table | store | engine
	// table
	Decl  string `json:"decl"`
	Kind  string `json:"kind"`
	XType string `json:"xtype"`
	Class string `json:"class"`
	Same  string `json:"same"`
	// store
	Steps []StoreStep `json:"steps"`
	Seed  int64       `json:"seed"`
	Mode  string      `json:"mode"` // separate | shared (one option list reused for both instances)
}

type StoreStep struct {
	Op     string              `json:"op"`
	Via    string              `json:"via"` // raw | item
	Inst   int                 `json:"inst"`
	Name   string              `json:"name"`
	Val    string              `json:"val"`
	Expect []map[string]string `json:"expect"`
	Snap   struct {
		Inst int               `json:"inst"`
		Vals map[string]string `json:"vals"`
	} `json:"snap"`
}

type ValueResult struct {
	Run        int      `json:"run"`
	Checked    int      `json:"checked"`
	Mismatches []string `json:"mismatches"`
}

type point struct {
	X int    `json:"x"`
	S string `json:"s"`
}

// Samples returns concrete Go values of a dynamic kind (boundary values,
// unicode, nesting).
func Samples(kind string) []any {
	i7 := 7
	var nilInt *int
	var nilSlice []int
	var nilMap map[string]int
	switch kind {
	case "nil":
		return []any{nil}
	case "bool":
		return []any{true, false}
	case "int":
		return []any{0, -1, 42, math.MaxInt64, math.MinInt64}
	case "int8":
		return []any{int8(0), int8(-128), int8(127)}
	case "int16":
		return []any{int16(-32768), int16(32767)}
	case "int32":
		return []any{int32(math.MinInt32), int32(math.MaxInt32)}
	case "int64":
		return []any{int64(0), int64(math.MaxInt64), int64(math.MinInt64)}
	case "uint":
		return []any{uint(0), uint(7), uint(math.MaxInt64)}
	case "uint8":
		return []any{uint8(0), uint8(255)}
	case "uint16":
		return []any{uint16(65535)}
	case "uint32":
		return []any{uint32(math.MaxUint32)}
	case "uint64":
		return []any{uint64(0), uint64(1) << 40, uint64(math.MaxInt64)}
	case "float32":
		return []any{float32(0), float32(1.5), float32(-2.25), float32(0.1), float32(16777216)}
	case "float64":
		return []any{0.0, 1.5, -2.25, 1e-9, 123456789.125, 1e20, math.MaxFloat64, math.SmallestNonzeroFloat64,
			0.1 + 0.2, math.Pi, -math.E, 9007199254740994.0, 1.0 / 3.0, 5e-324, 2.5e-7, 1234567.890123456}
	case "string":
		return []any{"", "plain", "üñí©ödé ✓ 漢字", "with \"quotes\" and \\ and \n newline", "true", "12"}
	case "slice":
		return []any{[]int{1, 2, 3}, []any{"a", 1.5, true, nil, []any{1.0, "x"}}, []string{}, []map[string]any{{"k": "v"}}}
	case "array":
		return []any{[2]int{1, 2}, [1]string{"z"}}
	case "map":
		return []any{map[string]any{"b": "held-by-one-instance", "k": 2.0}, map[string]any{"a": 1.0, "b": map[string]any{"c": []any{1.0, 2.0}}}, map[string]int{"n": 3}, map[string]any{}}
	case "struct":
		return []any{point{X: 3, S: "p"}}
	case "ptr_int":
		return []any{&i7}
	case "ptr_struct":
		return []any{&point{X: 1, S: "q"}}
	case "ptr_slice":
		return []any{&[]int{4, 5}}
	case "ptr_nil":
		return []any{nilInt}
	case "nil_slice":
		return []any{nilSlice}
	case "nil_map":
		return []any{nilMap}
	}
	return nil
}

// canon is the canonical form of a Go value: what a JSON round trip yields,
// except that integers stay int64.
func canon(v any) any {
	rv := reflect.ValueOf(v)
	for rv.IsValid() && rv.Kind() == reflect.Pointer {
		if rv.IsNil() {
			return nil
		}
		rv = rv.Elem()
	}
	if !rv.IsValid() {
		return nil
	}
	switch rv.Kind() {
	case reflect.Int, reflect.Int8, reflect.Int16, reflect.Int32, reflect.Int64:
		return rv.Int()
	case reflect.Uint, reflect.Uint8, reflect.Uint16, reflect.Uint32, reflect.Uint64:
		return int64(rv.Uint())
	case reflect.Float32, reflect.Float64:
		return rv.Float()
	case reflect.Bool:
		return rv.Bool()
	case reflect.String:
		return rv.String()
	}
	b, err := json.Marshal(rv.Interface())
	if err != nil {
		return fmt.Sprintf("unmarshalable: %v", err)
	}
	var out any
	json.Unmarshal(b, &out)
	return out
}

func classOf(v any) string {
	switch v.(type) {
	case nil:
		return "empty"
	case int64:
		return "int"
	case float64:
		return "float"
	case bool:
		return "bool"
	case string:
		return "string"
	case []any:
		return "list"
	case map[string]any:
		return "dict"
	}
	return fmt.Sprintf("%T", v)
}

// scramble changes a read-back composite value in place (what a careless reader might do): a
// value handed out by the store belongs to the reader, later reads are not affected.
func scramble(v any) bool {
	switch x := v.(type) {
	case map[string]any:
		for k := range x {
			x[k] = "scrambled"
		}
		x["added-by-reader"] = 1
		return true
	case []any:
		for i := range x {
			x[i] = "scrambled"
		}
		return len(x) > 0
	}
	return false
}

func protect(f func()) (panicked string) {
	defer func() {
		if r := recover(); r != nil {
			panicked = fmt.Sprint(r)
		}
	}()
	f()
	return ""
}

func checkRow(sc ValueScenario, res *ValueResult) {
	for _, v := range Samples(sc.Kind) {
		res.Checked++
		var val *schema.Value
		p := protect(func() {
			if sc.Decl == "none" {
				val = schema.NewValue(v)
			} else {
				val = &schema.Value{ItemType: schema.ItemType(sc.Decl)}
				val.ValueFrom(v)
			}
		})
		if p != "" {
			res.Mismatches = append(res.Mismatches, fmt.Sprintf("decl=%s kind=%s value=%#v: PANIC %s", sc.Decl, sc.Kind, v, p))
			continue
		}
		var got any
		p = protect(func() { got = val.Value() })
		if p != "" {
			res.Mismatches = append(res.Mismatches, fmt.Sprintf("decl=%s kind=%s value=%#v: PANIC on read %s", sc.Decl, sc.Kind, v, p))
			continue
		}
		if sc.XType != "any" && string(val.Type()) != sc.XType {
			res.Mismatches = append(res.Mismatches, fmt.Sprintf("decl=%s kind=%s value=%#v: item type %q, want %q", sc.Decl, sc.Kind, v, val.Type(), sc.XType))
			continue
		}
		if sc.Same == "yes" {
			if scramble(got) {
				var again any
				if p := protect(func() { again = val.Value() }); p == "" && !reflect.DeepEqual(again, canon(v)) {
					res.Mismatches = append(res.Mismatches, fmt.Sprintf("decl=%s kind=%s value=%#v: a reader changed the value it had read; the next read gives %#v", sc.Decl, sc.Kind, v, again))
				}
				got = canon(v)
			}
			want := canon(v)
			g := got
			if n, ok := g.(int); ok {
				g = int64(n)
			}
			if !reflect.DeepEqual(g, want) {
				res.Mismatches = append(res.Mismatches, fmt.Sprintf("decl=%s kind=%s value=%#v: read back %#v (%s), want %#v (%s)", sc.Decl, sc.Kind, v, g, classOf(g), want, classOf(want)))
			}
		}
	}
}

const valueProcessXML = `<?xml version="1.0" encoding="UTF-8"?>
<bpmn:definitions xmlns:bpmn="http://www.omg.org/spec/BPMN/20100524/MODEL" xmlns:olive="http://olive.io/spec/BPMN/MODEL" id="d" targetNamespace="http://bpmn.io/schema/bpmn" expressionLanguage="https://github.com/expr-lang/expr">
  <bpmn:process id="p" isExecutable="true">
    <bpmn:startEvent id="s"><bpmn:outgoing>f1</bpmn:outgoing></bpmn:startEvent>
    <bpmn:serviceTask id="t">
      <bpmn:extensionElements>
        <olive:taskDefinition type="service"/>
        <olive:taskHeaders><olive:header name="h1" value="x"/><olive:header name="h2" value="declared" ref="$a.b"/><olive:header name="h3" ref="$missing.path"/><olive:header name="h4" ref="$"/><olive:header name="h5" ref="nodollar"/></olive:taskHeaders>
        <olive:properties><olive:property name="a" type="object"/><olive:property name="b" type="integer" ref="$a.b"/><olive:property name="c" type="array" ref="$missing.c"/><olive:property name="d" type="object" ref="$a.nothing"/><olive:property name="e" type="integer"/><olive:property name="f" type="string" ref="$a"/></olive:properties>
        <olive:results><olive:field name="r" type="string"/><olive:field name="n" type="integer"/><olive:field name="fl" type="float"/></olive:results>
        <olive:dataOutput name="out" targetRef="dor"/>
      </bpmn:extensionElements>
      <bpmn:incoming>f1</bpmn:incoming><bpmn:outgoing>f2</bpmn:outgoing>
    </bpmn:serviceTask>
    <bpmn:endEvent id="e"><bpmn:incoming>f2</bpmn:incoming></bpmn:endEvent>
    <bpmn:sequenceFlow id="f1" sourceRef="s" targetRef="t"/>
    <bpmn:sequenceFlow id="f2" sourceRef="t" targetRef="e"/>
    <bpmn:dataObjectReference id="dor" name="out" dataObjectRef="do1"/>
    <bpmn:dataObject id="do1"/>
  </bpmn:process>
</bpmn:definitions>`

// engineValue runs the one-task process with variable a = va, answers the task
// with result r = vr and data object out = vr, and reads everything back.
func engineValue(kind string, res *ValueResult) {
	defs, err := schema.Parse([]byte(valueProcessXML))
	if err != nil {
		res.Mismatches = append(res.Mismatches, "parse: "+err.Error())
		return
	}
	defsBefore := alpha.Print(defs)
	for vi, v0 := range append(Samples(kind), Samples(kind)...) {
		if vi > 0 {
			// the definitions are shared by every instance built from them: running one must not
			// write into them (what one instance resolved would show up in the next)
			if now := alpha.Print(defs); now != defsBefore {
				res.Mismatches = append(res.Mismatches, fmt.Sprintf("engine kind=%s: running an instance changed the definitions model it was built from: %s", kind, alpha.FirstDiff(defsBefore, now)))
				defsBefore = now
			}
		}
		v := v0
		asItem := vi >= len(Samples(kind)) // second pass: the task result arrives wrapped as an item
		res.Checked++
		ctx, cancel := context.WithCancel(context.Background())
		inst, err := bpmn.NewEngine().NewProcess(defs, bpmn.WithContext(ctx), bpmn.WithVariables(map[string]any{"a": v, "e": v}))
		if err != nil {
			res.Mismatches = append(res.Mismatches, "newprocess: "+err.Error())
			cancel()
			continue
		}
		ch := make(chan tracing.ITrace, 1024)
		inst.Tracer().SubscribeChannel(ch)
		if err := inst.StartAll(ctx); err != nil {
			res.Mismatches = append(res.Mismatches, "startall: "+err.Error())
			cancel()
			continue
		}
		answered := false
		deadline := time.After(5 * time.Second)
	loop:
		for {
			select {
			case tr := <-ch:
				tr = tracing.Unwrap(tr)
				switch t := tr.(type) {
				case bpmn.TaskTrace:
					_ = t.GetProperties()
					// the header that refers to $a.b: the member's string when this instance has one,
					// the declared value otherwise -- never what another instance had there
					wantH := "declared"
					if m, ok := canon(v).(map[string]any); ok {
						if sv, ok := m["b"].(string); ok {
							wantH = sv
						}
					}
					if got, ok := t.GetHeaders()["h2"]; !ok || got != wantH {
						res.Mismatches = append(res.Mismatches, fmt.Sprintf("engine kind=%s value=%#v: header h2 (value=\"declared\" ref=\"$a.b\") is %q, want %q", kind, v, got, wantH))
					}
					if asItem {
						t.Do(bpmn.DoWithResults(map[string]any{"r": schema.NewValue(v), "n": schema.NewValue(v), "fl": schema.NewValue(v)}), bpmn.DoWithObjects(map[string]any{"out": v}))
					} else {
						t.Do(bpmn.DoWithResults(map[string]any{"r": v, "n": v, "fl": v}), bpmn.DoWithObjects(map[string]any{"out": v}))
					}
					answered = true
				case bpmn.CeaseFlowTrace:
					break loop
				}
			case <-deadline:
				res.Mismatches = append(res.Mismatches, fmt.Sprintf("engine kind=%s value=%#v: instance did not complete (answered=%v)", kind, v, answered))
				break loop
			}
		}
		vars := inst.Locator().CloneVariables()
		want := canon(v)
		if it, ok := vars["a"]; ok && want != nil {
			g := it.Value()
			if !reflect.DeepEqual(g, want) {
				res.Mismatches = append(res.Mismatches, fmt.Sprintf("engine variable kind=%s value=%#v: read back %#v, want %#v", kind, v, g, want))
			}
		} else if want != nil {
			res.Mismatches = append(res.Mismatches, fmt.Sprintf("engine variable kind=%s value=%#v: missing", kind, v))
		}
		if it, ok := vars["r"]; ok && want != nil {
			if g := it.Value(); !reflect.DeepEqual(g, want) {
				res.Mismatches = append(res.Mismatches, fmt.Sprintf("engine task result kind=%s value=%#v: read back %#v, want %#v", kind, v, g, want))
			}
		} else if want != nil && answered {
			res.Mismatches = append(res.Mismatches, fmt.Sprintf("engine task result kind=%s value=%#v: declared result not stored", kind, v))
		}
		// the same answer under result fields declared integer and float: the value handed in is the
		// value stored, whatever Go kind it came as (a JSON number arrives as float64)
		for _, name := range []string{"n", "fl"} {
			if it, ok := vars[name]; ok && want != nil {
				if g := it.Value(); !reflect.DeepEqual(g, want) {
					res.Mismatches = append(res.Mismatches, fmt.Sprintf("engine task result kind=%s value=%#v under the declared field %q: read back %#v, want %#v", kind, v, name, g, want))
				}
			} else if want != nil && answered {
				res.Mismatches = append(res.Mismatches, fmt.Sprintf("engine task result kind=%s value=%#v: declared result %q not stored", kind, v, name))
			}
		}
		cancel()
	}
}

// ValueProcessXML is the document of the C16 engine scenarios: olive headers / properties / results
// with literal values, references, and both (C15 round-trips it as well).
func ValueProcessXML() string { return valueProcessXML }

// sameStored: equality of a read-back value with the canonical form of what was stored; nil
// without a declaration may read back as nil or as the type-less empty value (the property does
// not pin its canonical form).
func sameStored(got, want any) bool {
	if want == nil {
		return got == nil || got == ""
	}
	return reflect.DeepEqual(got, want)
}

func storeRun(sc ValueScenario, res *ValueResult) {
	defs, err := schema.Parse([]byte(valueProcessXML))
	if err != nil {
		res.Mismatches = append(res.Mismatches, "parse: "+err.Error())
		return
	}
	kinds := []string{"int", "uint8", "float64", "string", "slice", "map", "bool", "struct", "int64", "nil", "ptr_int", "float32"}
	concrete := map[string]any{}
	for i, name := range []string{"v1", "v2"} {
		k := kinds[int(sc.Seed+int64(i)*3)%len(kinds)]
		s := Samples(k)
		concrete[name] = s[int(sc.Seed)%len(s)]
	}
	ctx, cancel := context.WithCancel(context.Background())
	defer cancel()
	var insts [2]*bpmn.Process
	// every ready-made item handed to the engine, with the value it had then: a value handed in
	// is never changed by what is stored later
	type handed struct {
		it   *schema.Value
		want any
		what string
	}
	var items []handed
	var snapshot map[string]data.IItem
	if sc.Mode == "shared" || sc.Mode == "shareditem" {
		// one engine, ONE option list used for both instances
		engine := bpmn.NewEngine()
		var start any = concrete["v1"]
		if sc.Mode == "shareditem" {
			it := schema.NewValue(concrete["v1"])
			items = append(items, handed{it, canon(concrete["v1"]), "the start variable item of the shared option list"})
			start = it
		}
		// the option list is built by appending (spare capacity behind its last element) and the
		// two instances are created from it at the same time on every second behaviour
		opts := make([]bpmn.Option, 0, 8)
		opts = append(opts, bpmn.WithContext(ctx))
		opts = append(opts, bpmn.WithVariables(map[string]any{"a": start}))
		if sc.Seed%2 == 0 {
			var wg sync.WaitGroup
			errs := make([]error, len(insts))
			gate := make(chan struct{})
			for i := range insts {
				wg.Add(1)
				go func(i int) {
					defer wg.Done()
					<-gate
					insts[i], errs[i] = engine.NewProcess(defs, opts...)
				}(i)
			}
			close(gate)
			wg.Wait()
			for _, e := range errs {
				if e != nil {
					res.Mismatches = append(res.Mismatches, "newprocess: "+e.Error())
					return
				}
			}
		} else {
			for i := range insts {
				insts[i], err = engine.NewProcess(defs, opts...)
				if err != nil {
					res.Mismatches = append(res.Mismatches, "newprocess: "+err.Error())
					return
				}
			}
		}
	} else {
		for i := range insts {
			insts[i], err = bpmn.NewEngine().NewProcess(defs, bpmn.WithContext(ctx))
			if err != nil {
				res.Mismatches = append(res.Mismatches, "newprocess: "+err.Error())
				return
			}
		}
	}
	for si, st := range sc.Steps {
		res.Checked++
		loc := insts[st.Inst-1].Locator()
		if st.Op == "set" {
			if st.Via == "item" {
				it := schema.NewValue(concrete[st.Val])
				items = append(items, handed{it, canon(concrete[st.Val]), fmt.Sprintf("the item stored as %s in instance %d at step %d", st.Name, st.Inst, si)})
				loc.SetVariable(st.Name, it)
			} else {
				loc.SetVariable(st.Name, concrete[st.Val])
			}
		}
		if st.Op == "snap" {
			snapshot = loc.CloneVariables()
		}
		if st.Op == "merge" {
			loc.Merge(insts[2-st.Inst].Locator())
		}
		// a snapshot taken earlier still shows what the instance held then
		if snapshot != nil {
			for name, want := range st.Snap.Vals {
				it, present := snapshot[name]
				if want == "-" {
					if present {
						res.Mismatches = append(res.Mismatches, fmt.Sprintf("store step %d (%s): the snapshot taken earlier now has %s", si, st.Op, name))
					}
					continue
				}
				if !present || !sameStored(it.Value(), canon(concrete[want])) {
					res.Mismatches = append(res.Mismatches, fmt.Sprintf("store step %d (%s): the CloneVariables snapshot taken earlier changed: %s is no longer %#v", si, st.Op, name, canon(concrete[want])))
				}
			}
		}
		for _, hd := range items {
			if g := hd.it.Value(); !sameStored(g, hd.want) {
				res.Mismatches = append(res.Mismatches, fmt.Sprintf("store step %d (%s inst %d): %s was changed behind the caller's back: %#v, was %#v", si, st.Op, st.Inst, hd.what, g, hd.want))
			}
		}
		// after every operation both instances must hold exactly what the model says
		for ii := 0; ii < 2; ii++ {
			vars := insts[ii].Locator().CloneVariables()
			for name, want := range st.Expect[ii] {
				it, present := vars[name]
				if want == "-" {
					if present {
						res.Mismatches = append(res.Mismatches, fmt.Sprintf("store step %d: instance %d has %s although it was never set there", si, ii+1, name))
					}
					continue
				}
				if !present {
					res.Mismatches = append(res.Mismatches, fmt.Sprintf("store step %d: instance %d lost %s", si, ii+1, name))
					continue
				}
				if g, w := it.Value(), canon(concrete[want]); !sameStored(g, w) {
					res.Mismatches = append(res.Mismatches, fmt.Sprintf("store step %d: instance %d %s = %#v, want %#v", si, ii+1, name, g, w))
				} else if scramble(g) {
					// the reader owns what it read: the store still holds the value
					if v2, ok := insts[ii].Locator().GetVariable(name); !ok || !sameStored(v2, w) {
						res.Mismatches = append(res.Mismatches, fmt.Sprintf("store step %d: instance %d %s: a reader changed the value it had read; the store now gives %#v, want %#v", si, ii+1, name, v2, w))
					}
				}
				// the item type is the one the value has as an item of its own, whichever way
				// (raw, ready-made item, merge, shared start variable) it reached the store
				if g, w := it.Type(), schema.NewValue(concrete[want]).Type(); g != w {
					res.Mismatches = append(res.Mismatches, fmt.Sprintf("store step %d: instance %d %s has item type %q, the value's own item type is %q", si, ii+1, name, g, w))
				}
				if v, ok := insts[ii].Locator().GetVariable(name); !ok || !sameStored(v, canon(concrete[want])) {
					res.Mismatches = append(res.Mismatches, fmt.Sprintf("store step %d: GetVariable(%s) on instance %d = %#v", si, name, ii+1, v))
				}
			}
		}
	}
}

const setIsolationXML = `<?xml version="1.0" encoding="UTF-8"?>
<bpmn:definitions xmlns:bpmn="http://www.omg.org/spec/BPMN/20100524/MODEL" xmlns:olive="http://olive.io/spec/BPMN/MODEL" id="d2" targetNamespace="http://bpmn.io/schema/bpmn" expressionLanguage="https://github.com/expr-lang/expr">
  <bpmn:process id="pa" isExecutable="true">
    <bpmn:startEvent id="sa"><bpmn:outgoing>fa1</bpmn:outgoing></bpmn:startEvent>
    <bpmn:serviceTask id="ta">
      <bpmn:extensionElements><olive:taskDefinition type="service"/><olive:results><olive:field name="x" type="integer"/></olive:results></bpmn:extensionElements>
      <bpmn:incoming>fa1</bpmn:incoming><bpmn:outgoing>fa2</bpmn:outgoing>
    </bpmn:serviceTask>
    <bpmn:endEvent id="ea"><bpmn:incoming>fa2</bpmn:incoming></bpmn:endEvent>
    <bpmn:sequenceFlow id="fa1" sourceRef="sa" targetRef="ta"/>
    <bpmn:sequenceFlow id="fa2" sourceRef="ta" targetRef="ea"/>
  </bpmn:process>
  <bpmn:process id="pb" isExecutable="true">
    <bpmn:startEvent id="sb"><bpmn:outgoing>fb1</bpmn:outgoing></bpmn:startEvent>
    <bpmn:serviceTask id="tb1">
      <bpmn:extensionElements><olive:taskDefinition type="service"/></bpmn:extensionElements>
      <bpmn:incoming>fb1</bpmn:incoming><bpmn:outgoing>fb2</bpmn:outgoing>
    </bpmn:serviceTask>
    <bpmn:serviceTask id="tb2">
      <bpmn:extensionElements><olive:taskDefinition type="service"/><olive:properties><olive:property name="x" type="integer"/><olive:property name="y" type="integer" ref="$x"/></olive:properties></bpmn:extensionElements>
      <bpmn:incoming>fb2</bpmn:incoming><bpmn:outgoing>fb3</bpmn:outgoing>
    </bpmn:serviceTask>
    <bpmn:endEvent id="eb"><bpmn:incoming>fb3</bpmn:incoming></bpmn:endEvent>
    <bpmn:sequenceFlow id="fb1" sourceRef="sb" targetRef="tb1"/>
    <bpmn:sequenceFlow id="fb2" sourceRef="tb1" targetRef="tb2"/>
    <bpmn:sequenceFlow id="fb3" sourceRef="tb2" targetRef="eb"/>
  </bpmn:process>
</bpmn:definitions>`

// setIsolation: two processes of one process set; process A stores the task result x = 7 and
// completes; only then process B moves on to a task whose properties are bound to the variable
// x by name and by reference: B must not see A's value.
func setIsolation(res *ValueResult) {
	defs, err := schema.Parse([]byte(setIsolationXML))
	if err != nil {
		res.Mismatches = append(res.Mismatches, "parse: "+err.Error())
		return
	}
	ctx, cancel := context.WithCancel(context.Background())
	defer cancel()
	ps, err := bpmn.NewEngine().NewProcessSet(defs, bpmn.WithContext(ctx))
	if err != nil {
		res.Mismatches = append(res.Mismatches, "newprocessset: "+err.Error())
		return
	}
	ch := make(chan tracing.ITrace, 1024)
	ps.Tracer().SubscribeChannel(ch)
	if err := ps.StartAll(ctx); err != nil {
		res.Mismatches = append(res.Mismatches, "startall: "+err.Error())
		return
	}
	res.Checked++
	var tb1 bpmn.TaskTrace
	aDone, seen := false, false
	deadline := time.After(5 * time.Second)
	for !seen {
		select {
		case tr := <-ch:
			switch t := tracing.Unwrap(tr).(type) {
			case bpmn.TaskTrace:
				id := ""
				if p, ok := t.GetActivity().Element().Id(); ok {
					id = *p
				}
				switch id {
				case "ta":
					t.Do(bpmn.DoWithResults(map[string]any{"x": 7}))
				case "tb1":
					tb1 = t
					if aDone {
						t.Do()
					}
				case "tb2":
					for name, it := range t.GetProperties() {
						if it != nil && reflect.DeepEqual(canon(it.Value()), int64(7)) {
							res.Mismatches = append(res.Mismatches, fmt.Sprintf("process set: process B is offered property %s = 7, the task result process A stored in ITS variable x", name))
						}
					}
					seen = true
					t.Do()
				}
			case bpmn.CeaseFlowTrace:
				if elemId(t.Process) == "pa" {
					aDone = true
					if tb1 != nil {
						tb1.Do()
					}
				}
			}
		case <-deadline:
			res.Mismatches = append(res.Mismatches, "process set isolation scenario did not get to task tb2")
			return
		}
	}
}

// ValueRun executes one scenario.
func ValueRun(run int, sc ValueScenario) ValueResult {
	res := ValueResult{Run: run, Mismatches: []string{}}
	switch sc.Type {
	case "table":
		checkRow(sc, &res)
	case "engine":
		engineValue(sc.Kind, &res)
	case "store":
		storeRun(sc, &res)
	case "set":
		setIsolation(&res)
	}
	return res
}
