package drive

import (
	"context"
	"runtime"
	"strings"
	"sync"
	"time"

	bpmn "github.com/olive-io/bpmn/v2"
	"github.com/olive-io/bpmn/v2/pkg/tracing"

	"verif/harness/internal/render"
)

// SetScenario: one run of a process set (C18).
type SetScenario struct {
	Members []render.SetMember `json:"members"`
	Flows   []render.MsgFlow   `json:"flows"`
	// Waits: each entry is a group of concurrent WaitUntilComplete calls (timeouts in ms);
	// groups are issued one after the other
	Waits [][]int `json:"waits"`
	// HoldMs: task requests are answered only after this delay (the first wait
	// group is then issued while requests are outstanding)
	HoldMs int `json:"hold_ms"`
	// PollMs: before the wait groups, WaitUntilComplete is polled (each call giving up at once) for
	// this long; a poll that reports completion is recorded and ends the polling
	PollMs int `json:"poll_ms"`
}

// SetRun starts the set, answers every task request at once, issues the
// waits, and records per-process logs (Proc = index of the member a record
// belongs to, -1 for set-level records).
type SetRec struct {
	Rec
	Proc int `json:"proc"`
}

func memberOf(sc *SetScenario, node string) int {
	for i, m := range sc.Members {
		if m.P.Node(node) != nil {
			return i
		}
		if strings.TrimPrefix(node, "proc_") == m.P.Name {
			return i
		}
	}
	return -1
}

func isMsgTarget(sc *SetScenario, node string) bool {
	for _, f := range sc.Flows {
		if f.Dst == node {
			return true
		}
	}
	return false
}

func SetRun(run int, sc SetScenario, T time.Duration) []SetRec {
	var mu sync.Mutex
	var log []SetRec
	add := func(proc int, r Rec) {
		r.Run = run
		if r.Flows == nil {
			r.Flows = []string{}
		}
		if r.Vars == nil {
			r.Vars = map[string]int{}
		}
		if r.Fids == nil {
			r.Fids = []string{}
		}
		log = append(log, SetRec{Rec: r, Proc: proc})
	}
	defs, err := render.SetDefinitions(sc.Members, sc.Flows)
	if err != nil {
		add(-1, Rec{Ev: "infra", Kind: "parse: " + err.Error()})
		return log
	}
	ctx, cancel := context.WithCancel(context.Background())
	defer cancel()
	engine := bpmn.NewEngine()
	ps, err := engine.NewProcessSet(defs, bpmn.WithContext(ctx))
	if err != nil {
		add(-1, Rec{Ev: "infra", Kind: "newprocessset: " + err.Error()})
		return log
	}
	ch := make(chan tracing.ITrace, 8192)
	ps.Tracer().SubscribeChannel(ch)
	reqn := map[string]int{}
	delivered, observedN, early := map[string]int{}, map[string]int{}, map[string]int{}
	nexec := 0
	inited := map[int]bool{}
	for i, m := range sc.Members {
		if m.Exec {
			nexec++
			inited[i] = true
			add(i, Rec{Ev: "init", N: i, Kind: m.P.Name, Ok: m.Exec, Vars: copyVars(m.P.Vars0)})
		}
	}
	// a waiting process is initialised when its first trace shows up
	touch := func(pi int) {
		if pi >= 0 && !inited[pi] {
			inited[pi] = true
			add(pi, Rec{Ev: "init", N: pi, Kind: sc.Members[pi].P.Name, Vars: copyVars(sc.Members[pi].P.Vars0)})
		}
	}
	add(-1, Rec{Ev: "setinit", N: nexec})
	go func() {
		for tr := range ch {
			u := tracing.Unwrap(tr)
			mu.Lock()
			switch t := u.(type) {
			case bpmn.TaskTrace:
				id := elemId(t.GetActivity().Element())
				reqn[id]++
				k := reqn[id]
				pi := memberOf(&sc, id)
				touch(pi)
				add(pi, Rec{Ev: "req", Node: id, Occ: k, Ok: true})
				add(-1, Rec{Ev: "preq", Node: id})
				// a task that writes variables is answered with the last value of each domain
				vars := map[string]int{}
				res := map[string]any{}
				if pi >= 0 {
					if n := sc.Members[pi].P.Node(id); n != nil {
						for _, w := range n.Writes {
							if d := sc.Members[pi].P.Dom[w]; len(d) > 0 {
								vars[w] = d[len(d)-1]
								res[w] = d[len(d)-1]
							}
						}
					}
				}
				do := func() {
					if len(res) > 0 {
						t.Do(bpmn.DoWithResults(res))
					} else {
						t.Do()
					}
				}
				if sc.HoldMs > 0 {
					go func() {
						time.Sleep(time.Duration(sc.HoldMs) * time.Millisecond)
						mu.Lock()
						add(pi, Rec{Ev: "ans", Node: id, Occ: k, Vars: copyVars(vars)})
						add(-1, Rec{Ev: "pans", Node: id})
						mu.Unlock()
						do()
					}()
				} else {
					add(pi, Rec{Ev: "ans", Node: id, Occ: k, Vars: copyVars(vars)})
					add(-1, Rec{Ev: "pans", Node: id})
					go do()
				}
			case bpmn.CompletionTrace:
				id := nodeId(t.Node)
				pi := memberOf(&sc, id)
				if pi >= 0 {
					touch(pi)
					if n := sc.Members[pi].P.Node(id); n != nil && n.Kind == "end" && n.Scope == "" {
						add(pi, Rec{Ev: "end", Node: id})
					}
				}
			case bpmn.CeaseFlowTrace:
				id := elemId(t.Process)
				touch(memberOf(&sc, id))
				add(memberOf(&sc, id), Rec{Ev: "cease", Node: id})
				add(-1, Rec{Ev: "pcease", Node: id})
			case bpmn.CeaseProcessSetTrace:
				add(-1, Rec{Ev: "ceaseset"})
			case bpmn.InstantiationTrace:
				add(-1, Rec{Ev: "instantiation", Kind: t.InstanceId.String()})
			case bpmn.FlowTrace:
				id := nodeId(t.Source)
				if pi := memberOf(&sc, id); pi >= 0 {
					if n := sc.Members[pi].P.Node(id); n != nil && n.Kind == "throw" {
						// what the throw's message flow (if any) points at
						target := ""
						for _, f := range sc.Flows {
							if f.Src == id {
								if ti := memberOf(&sc, f.Dst); ti >= 0 {
									target = sc.Members[ti].P.Node(f.Dst).Kind
								}
							}
						}
						add(-1, Rec{Ev: "throw", Node: id, Kind: target})
						// the wake-up of a catch event is a delivery into its process
						for _, f := range sc.Flows {
							if f.Src == id {
								if ti := memberOf(&sc, f.Dst); ti >= 0 && target == "catch" {
									touch(ti)
									if early[f.Dst] > 0 {
										// already accounted for when the catch event reported the event
										early[f.Dst]--
										continue
									}
									for _, e := range sc.Members[ti].P.Node(f.Dst).Evs {
										add(ti, Rec{Ev: "deliverx", Kind: e.K, Node: e.Ref})
									}
									delivered[f.Dst]++
								}
							}
						}
					}
				}
			case bpmn.VisitTrace:
				id := nodeId(t.Node)
				if pi := memberOf(&sc, id); pi >= 0 {
					touch(pi)
					if n := sc.Members[pi].P.Node(id); n != nil && n.Kind == "catch" {
						add(pi, Rec{Ev: "visit", Node: id})
					}
				}
			case bpmn.ActiveListeningTrace:
				if idp, ok := t.Node.Id(); ok {
					if pi := memberOf(&sc, *idp); pi >= 0 {
						add(pi, Rec{Ev: "listening", Node: *idp})
					}
				}
			case bpmn.EventObservedTrace:
				if idp, ok := t.Node.Id(); ok {
					if pi := memberOf(&sc, *idp); pi >= 0 {
						// The member processes reach this observer through separate relays, so the
						// thrower's flow trace (from which the delivery record is derived) may arrive
						// after the catcher's report of the very event it caused.  Causally the
						// delivery precedes the observation: record it first.
						observedN[*idp]++
						if isMsgTarget(&sc, *idp) && observedN[*idp] > delivered[*idp] {
							for _, e := range sc.Members[pi].P.Node(*idp).Evs {
								add(pi, Rec{Ev: "deliverx", Kind: e.K, Node: e.Ref})
							}
							delivered[*idp]++
							early[*idp]++
						}
						k, ref := evName(t.Event)
						add(pi, Rec{Ev: "observed", Node: *idp, Kind: k, Flows: []string{ref}})
					}
				}
			case bpmn.ErrorTrace:
				k, n := classifyErr(t.Error)
				add(-1, Rec{Ev: "error", Kind: k, Node: n})
			}
			mu.Unlock()
		}
	}()
	ok := callWithin(T, func() {
		if err := ps.StartAll(ctx); err != nil {
			mu.Lock()
			add(-1, Rec{Ev: "infra", Kind: "startall: " + err.Error()})
			mu.Unlock()
		}
	})
	mu.Lock()
	add(-1, Rec{Ev: "started", Ok: ok})
	mu.Unlock()
	if sc.PollMs > 0 {
		t0 := time.Now()
		early := false
		for time.Since(t0) < time.Duration(sc.PollMs)*time.Millisecond && !early {
			wctx, wc := context.WithTimeout(context.Background(), 0)
			early = ps.WaitUntilComplete(wctx)
			wc()
		}
		mu.Lock()
		add(-1, Rec{Ev: "setwait", Ok: early, N: 0})
		mu.Unlock()
	}
	for _, group := range sc.Waits {
		var wg sync.WaitGroup
		res := make([]bool, len(group))
		for i, ms := range group {
			wg.Add(1)
			go func(i, ms int) {
				defer wg.Done()
				wctx, wc := context.WithTimeout(context.Background(), time.Duration(ms)*time.Millisecond)
				defer wc()
				res[i] = ps.WaitUntilComplete(wctx)
			}(i, ms)
		}
		wg.Wait()
		mu.Lock()
		for i, ms := range group {
			add(-1, Rec{Ev: "setwait", Ok: res[i], N: ms})
		}
		mu.Unlock()
	}
	// A wait reported completion: the cease traces it implies reach this observer through
	// relays, i.e. some time later; wait for them (bounded by T) instead of guessing a delay.
	anyTrue := false
	mu.Lock()
	for _, r := range log {
		if r.Ev == "setwait" && r.Ok {
			anyTrue = true
		}
	}
	mu.Unlock()
	if anyTrue {
		deadline := time.Now().Add(T)
		for time.Now().Before(deadline) {
			mu.Lock()
			// processes that were started: the executable ones plus one per throw into a start event
			nRun, nCease, set := nexec, 0, false
			for _, r := range log {
				switch {
				case r.Ev == "throw" && r.Kind == "start":
					nRun++
				case r.Ev == "pcease":
					nCease++
				case r.Ev == "ceaseset":
					set = true
				}
			}
			mu.Unlock()
			if set && nCease >= nRun {
				break
			}
			time.Sleep(2 * time.Millisecond)
		}
		if !time.Now().Before(deadline) {
			// what is everybody doing? (kept in the replay file; not part of the validated stream)
			buf := make([]byte, 1<<20)
			buf = buf[:runtime.Stack(buf, true)]
			mu.Lock()
			add(-2, Rec{Ev: "dump", Kind: string(buf)})
			mu.Unlock()
		}
	}
	time.Sleep(20 * time.Millisecond)
	mu.Lock()
	for i := range sc.Members {
		if inited[i] {
			ceased := false
			for _, r := range log {
				if r.Proc == i && r.Ev == "cease" {
					ceased = true
				}
			}
			// (a member's variables cannot be read through the set's API: the final store recorded
			// here is what the answers wrote over the initial values; what is OBSERVED of the
			// variables is which branches the member's conditions take)
			fv := copyVars(sc.Members[i].P.Vars0)
			for _, r := range log {
				if r.Proc == i && r.Ev == "ans" {
					for k, v := range r.Vars {
						fv[k] = v
					}
				}
			}
			add(i, Rec{Ev: "fin", Ok: ceased, Vars: fv})
		}
	}
	add(-1, Rec{Ev: "setfin"})
	out := append([]SetRec(nil), log...)
	mu.Unlock()
	return out
}
