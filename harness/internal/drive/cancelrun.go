package drive

import (
	"bytes"
	"context"
	"fmt"
	"regexp"
	"runtime/pprof"
	"sort"
	"strings"
	"sync"
	"time"

	bpmn "github.com/olive-io/bpmn/v2"
	"github.com/olive-io/bpmn/v2/pkg/clock"
	"github.com/olive-io/bpmn/v2/pkg/event"
	"github.com/olive-io/bpmn/v2/pkg/timer"
	"github.com/olive-io/bpmn/v2/pkg/tracing"

	"verif/harness/internal/prog"
	"verif/harness/internal/render"
)

var reGoroutineHdr = regexp.MustCompile(`(?m)^(\d+) @`)

// census returns the number of goroutines carrying the pprof label
// vcase=<label> and the (deduplicated) innermost repository frames of them.
func census(label string) (int, string) {
	var buf bytes.Buffer
	pprof.Lookup("goroutine").WriteTo(&buf, 1)
	total := 0
	var where []string
	for _, block := range strings.Split(buf.String(), "\n\n") {
		if !strings.Contains(block, `"vcase":"`+label+`"`) {
			continue
		}
		m := reGoroutineHdr.FindStringSubmatch(block)
		n := 1
		if m != nil {
			for _, c := range m[1] {
				_ = c
			}
			n = atoi(m[1])
		}
		total += n
		// first frame inside the repository
		for _, line := range strings.Split(block, "\n") {
			if strings.Contains(line, "github.com/olive-io/bpmn") && strings.HasPrefix(line, "#\t") {
				f := strings.Fields(line)
				if len(f) >= 3 {
					fn := f[2]
					if i := strings.LastIndex(fn, "/"); i >= 0 {
						fn = fn[i+1:]
					}
					if i := strings.Index(fn, "+0x"); i >= 0 {
						fn = fn[:i]
					}
					where = append(where, fn)
				}
				break
			}
		}
	}
	sort.Strings(where)
	var uniq []string
	for i, w := range where {
		if i == 0 || where[i-1] != w {
			uniq = append(uniq, w)
		}
	}
	return total, strings.Join(uniq, ",")
}

func atoi(s string) int {
	n := 0
	for _, c := range s {
		if c >= '0' && c <= '9' {
			n = n*10 + int(c-'0')
		}
	}
	return n
}

// CancelRun runs program p answering every request (and delivering the event
// of every catch event that starts listening) at once, cancels the instance
// context after cancelAt engine traces have been observed (-1: never, the run
// is the reference that tells how many traces there are), and then records
// what the property talks about: the latency of WaitUntilComplete, tracer
// termination, closure of the subscriber channel, the context of late task
// requests and the census of goroutines the instance started.
func CancelRun(run, progIdx int, p *prog.Program, cancelAt int, o Options, label string) []Rec {
	r := &runner{cnt: map[string]int{}, reqs: map[string][]*pendingReq{}, run: run, p: p, nans: map[string]int{}}
	r.cond = sync.NewCond(&r.mu)
	defs, err := render.Definitions(p, render.Options{})
	if err != nil {
		r.add(Rec{Ev: "infra", Kind: "parse: " + err.Error()})
		return r.log
	}
	ctx, cancel := context.WithCancel(context.Background())
	defer cancel()
	var inst *bpmn.Process
	var ch chan tracing.ITrace
	traces := 0
	cancelled := false
	var once sync.Once
	parked := cancelAt == -2
	doCancel := func() {
		once.Do(func() {
			r.mu.Lock()
			kind := ""
			if parked {
				kind = "parked"
			}
			r.add(Rec{Ev: "cancel", N: traces, Kind: kind})
			cancelled = true
			r.mu.Unlock()
			cancel()
		})
	}
	vars := map[string]any{}
	for k, v := range p.Vars0 {
		vars[k] = v
	}
	startOK := false
	hasTimer := false
	pprof.Do(ctx, pprof.Labels("vcase", label), func(lctx context.Context) {
		engine := bpmn.NewEngine()
		opts := []bpmn.Option{bpmn.WithContext(lctx)}
		if len(vars) > 0 {
			opts = append(opts, bpmn.WithVariables(vars))
		}
		// a program with timer event definitions runs against the HOST clock: the timers (and
		// whatever the clock starts on their behalf) are goroutines of the instance as well
		for _, n := range p.Nodes {
			for _, e := range n.Evs {
				if e.K == "timer" && !hasTimer {
					hasTimer = true
				}
			}
		}
		if hasTimer {
			hc, herr := clock.Host(lctx)
			if herr != nil {
				err = herr
				return
			}
			tctx := clock.ToContext(lctx, hc)
			fanOut := event.NewFanOut()
			tr := tracing.NewTracer(tctx)
			opts = []bpmn.Option{bpmn.WithContext(tctx), bpmn.WithTracer(tr), bpmn.WithEventEgress(fanOut), bpmn.WithEventIngress(fanOut),
				bpmn.WithProcessEventDefinitionInstanceBuilder(event.DefinitionInstanceBuildingChain(timer.EventDefinitionInstanceBuilder(tctx, fanOut, tr)))}
		}
		inst, err = engine.NewProcess(defs, opts...)
		if err != nil {
			return
		}
		ch = make(chan tracing.ITrace, 8192)
		inst.Tracer().SubscribeChannel(ch)
		r.mu.Lock()
		r.add(Rec{Ev: "init", N: progIdx, Vars: copyVars(p.Vars0), Kind: p.Name})
		r.mu.Unlock()
		if cancelAt == 0 {
			doCancel()
		}
		startOK = callWithin(o.T, func() { _ = inst.StartAll(lctx) })
	})
	if err != nil || inst == nil {
		r.add(Rec{Ev: "infra", Kind: "newprocess"})
		return r.log
	}
	r.mu.Lock()
	r.add(Rec{Ev: "started", Ok: startOK})
	r.mu.Unlock()
	subClosed := make(chan struct{})
	go func() {
		defer close(subClosed)
		for tr := range ch {
			r.mu.Lock()
			traces++
			k := traces
			r.mu.Unlock()
			r.observe(tr)
			if cancelAt > 0 && k == cancelAt {
				doCancel()
			}
			// environment: answer requests and deliver awaited events at once
			u := tracing.Unwrap(tr)
			switch t := u.(type) {
			case bpmn.TaskTrace:
				id := elemId(t.GetActivity().Element())
				r.mu.Lock()
				can := cancelled
				var q *pendingReq
				if l := r.reqs[id]; len(l) > 0 {
					q = l[len(l)-1]
				}
				if parked {
					// nobody answers: the token stays at the task, the monitor parks in its second phase
					q = nil
				}
				// a program tagged "errhandler-pending": the second request is answered with an error
				// whose handler never decides -- the token waits for the decision until the cancel
				// comes (for the game the token stops there, as with an exit decision)
				pending := p.HasTag("errhandler-pending") && q != nil && q.occ == 1 && len(r.reqs) == 2
				if q != nil && !can {
					q.answered = true
					if pending {
						r.add(Rec{Ev: "ans", Node: id, Occ: q.occ, Kind: "exit"})
					} else {
						r.add(Rec{Ev: "ans", Node: id, Occ: q.occ})
					}
				}
				r.mu.Unlock()
				if q != nil && !can {
					if pending {
						go t.Do(bpmn.DoWithErrHandle(fmt.Errorf("boom"), make(chan bpmn.ErrHandler)))
					} else {
						go t.Do()
					}
				}
			case bpmn.ActiveListeningTrace:
				if idp, ok := t.Node.Id(); ok {
					if n := p.Node(*idp); n != nil && len(n.Evs) > 0 && n.Kind == "catch" && n.Evs[0].K != "timer" {
						e := n.Evs[0]
						go func() {
							time.Sleep(200 * time.Microsecond)
							r.mu.Lock()
							can := cancelled
							if !can {
								r.add(Rec{Ev: "deliverx", Kind: e.K, Node: e.Ref})
							}
							r.mu.Unlock()
							if can {
								return
							}
							var ev event.IEvent
							if e.K == "message" {
								ev = event.NewMessageEvent(e.Ref, nil)
							} else {
								ev = event.NewSignalEvent(e.Ref)
							}
							ok := callWithin(o.T, func() { _, _ = inst.ConsumeEvent(ev) })
							r.mu.Lock()
							if ok {
								r.add(Rec{Ev: "delivered", Kind: e.K, Node: e.Ref})
							}
							r.mu.Unlock()
						}()
					}
				}
			}
		}
	}()
	if parked {
		// let the instance run into its first unanswered requests and fall silent (every goroutine,
		// the completion monitor included, is then blocked where it waits), then cancel
		last, quiet := -1, 0
		deadline := time.Now().Add(o.T)
		for time.Now().Before(deadline) && quiet < 12 {
			r.mu.Lock()
			k := traces
			r.mu.Unlock()
			if k == last {
				quiet++
			} else {
				quiet, last = 0, k
			}
			time.Sleep(5 * time.Millisecond)
		}
		doCancel()
	} else if cancelAt < 0 {
		// reference run: wait for completion (or quiescence), then cancel
		wctx, wcancel := context.WithTimeout(context.Background(), o.T)
		done := false
		pprof.Do(ctx, pprof.Labels("vcase", label), func(context.Context) { done = inst.WaitUntilComplete(wctx) })
		wcancel()
		time.Sleep(o.Grace)
		r.mu.Lock()
		r.add(Rec{Ev: "wait", Ok: done})
		r.mu.Unlock()
		doCancel()
	} else {
		// wait until the cancel point has been reached (or the run is over)
		deadline := time.Now().Add(o.T)
		for time.Now().Before(deadline) {
			r.mu.Lock()
			c := cancelled
			r.mu.Unlock()
			if c {
				break
			}
			time.Sleep(200 * time.Microsecond)
		}
		doCancel()
	}
	// ---- post-cancel observations ----
	t0 := time.Now()
	var wret bool
	wok := false
	pprof.Do(ctx, pprof.Labels("vcase", label), func(context.Context) {
		wok = callWithin(o.T, func() { wret = inst.WaitUntilComplete(context.Background()) })
	})
	lat := int(time.Since(t0).Milliseconds())
	r.mu.Lock()
	if wok {
		r.add(Rec{Ev: "waitret", Ok: wret, N: lat})
	} else {
		r.add(Rec{Ev: "waitret", Ok: false, N: 1000000})
	}
	r.mu.Unlock()
	tdone := false
	select {
	case <-inst.Tracer().Done():
		tdone = true
	case <-time.After(o.T):
	}
	r.mu.Lock()
	r.add(Rec{Ev: "tracerdone", Ok: tdone})
	r.mu.Unlock()
	sclosed := false
	select {
	case <-subClosed:
		sclosed = true
	case <-time.After(o.T / 2):
	}
	r.mu.Lock()
	r.add(Rec{Ev: "subclosed", Ok: sclosed})
	r.mu.Unlock()
	// events handed to the instance after it was cancelled: every delivery returns (nothing is
	// listening any more; nobody drains the nodes' inboxes)
	{
		returned := 0
		for k := 0; k < 6; k++ {
			if callWithin(o.T/2, func() { _, _ = inst.ConsumeEvent(event.NewSignalEvent("after-cancel")) }) {
				returned++
			} else {
				break
			}
		}
		r.mu.Lock()
		r.add(Rec{Ev: "postdeliver", Ok: returned == 6, N: returned})
		r.mu.Unlock()
	}
	// census: poll until nothing labelled is left (bounded)
	n, where := 0, ""
	for i := 0; i < 60; i++ {
		n, where = census(label)
		if n == 0 {
			break
		}
		time.Sleep(time.Duration(5+i) * time.Millisecond)
	}
	r.mu.Lock()
	r.add(Rec{Ev: "census", N: n, Kind: where})
	r.add(Rec{Ev: "fin", Ok: wret, N: 0, Vars: map[string]int{}})
	out := append([]Rec(nil), r.log...)
	r.mu.Unlock()
	return out
}
