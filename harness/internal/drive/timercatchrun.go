package drive

import (
	"context"
	"fmt"
	"sync"
	"time"

	"github.com/olive-io/bpmn/schema"
	bpmn "github.com/olive-io/bpmn/v2"
	"github.com/olive-io/bpmn/v2/pkg/clock"
	"github.com/olive-io/bpmn/v2/pkg/event"
	"github.com/olive-io/bpmn/v2/pkg/timer"
	"github.com/olive-io/bpmn/v2/pkg/tracing"
)

// TimerCatchBehaviour is one history exported from TimerCatch.tla.
type TimerCatchBehaviour struct {
	Kind  string `json:"kind"` // duration | date
	D     int    `json:"d"`    // seconds
	Steps []struct {
		Op   string `json:"op"` // create | arm | advance
		Inst int    `json:"inst"`
		D    int    `json:"d"`
		Cont []int  `json:"cont"` // expected continuations per instance after the step
		Now  int    `json:"now"`
	} `json:"steps"`
}

const timerCatchXML = `<?xml version="1.0" encoding="UTF-8"?>
<bpmn:definitions xmlns:bpmn="http://www.omg.org/spec/BPMN/20100524/MODEL" xmlns:xsi="http://www.w3.org/2001/XMLSchema-instance" id="dtc" targetNamespace="http://bpmn.io/schema/bpmn">
  <bpmn:process id="p" isExecutable="true">
    <bpmn:startEvent id="s"><bpmn:outgoing>f1</bpmn:outgoing></bpmn:startEvent>
    <bpmn:task id="T"><bpmn:incoming>f1</bpmn:incoming><bpmn:outgoing>f2</bpmn:outgoing></bpmn:task>
    <bpmn:intermediateCatchEvent id="c"><bpmn:incoming>f2</bpmn:incoming><bpmn:outgoing>f3</bpmn:outgoing>
      <bpmn:timerEventDefinition id="td">%s</bpmn:timerEventDefinition>
    </bpmn:intermediateCatchEvent>
    <bpmn:task id="U"><bpmn:incoming>f3</bpmn:incoming><bpmn:outgoing>f4</bpmn:outgoing></bpmn:task>
    <bpmn:endEvent id="e"><bpmn:incoming>f4</bpmn:incoming></bpmn:endEvent>
    <bpmn:sequenceFlow id="f1" sourceRef="s" targetRef="T"/>
    <bpmn:sequenceFlow id="f2" sourceRef="T" targetRef="c"/>
    <bpmn:sequenceFlow id="f3" sourceRef="c" targetRef="U"/>
    <bpmn:sequenceFlow id="f4" sourceRef="U" targetRef="e"/>
  </bpmn:process>
</bpmn:definitions>`

// TimerCatchRun replays one history: instances of one definitions document built through ONE
// event-definition-instance builder against one mock clock; after every step the number of times
// each instance's timer catch event has continued (task U requested) must be the model's.
func TimerCatchRun(run int, b TimerCatchBehaviour, T time.Duration) ValueResult {
	res := ValueResult{Run: run, Mismatches: []string{}}
	bad := func(format string, a ...any) { res.Mismatches = append(res.Mismatches, fmt.Sprintf(format, a...)) }
	epoch := time.Date(2024, 1, 1, 0, 0, 0, 0, time.UTC)
	var expr string
	if b.Kind == "duration" {
		expr = fmt.Sprintf(`<bpmn:timeDuration xsi:type="bpmn:tFormalExpression">PT%dS</bpmn:timeDuration>`, b.D)
	} else {
		expr = fmt.Sprintf(`<bpmn:timeDate xsi:type="bpmn:tFormalExpression">%s</bpmn:timeDate>`, epoch.Add(time.Duration(b.D)*time.Second).Format("2006-01-02T15:04:05Z"))
	}
	defs, err := schema.Parse([]byte(fmt.Sprintf(timerCatchXML, expr)))
	if err != nil {
		bad("parse: %v", err)
		return res
	}
	mock := clock.NewMockAt(epoch)
	ctx, cancel := context.WithCancel(clock.ToContext(context.Background(), mock))
	defer cancel()
	fanOut := event.NewFanOut()
	tracer := tracing.NewTracer(ctx)
	builder := event.DefinitionInstanceBuildingChain(timer.EventDefinitionInstanceBuilder(ctx, fanOut, tracer))
	engine := bpmn.NewEngine()

	type inst struct {
		p         *bpmn.Process
		mu        sync.Mutex
		t         bpmn.TaskTrace
		listening int
		cont      int
		ch        chan tracing.ITrace
	}
	insts := map[int]*inst{}
	waitFor := func(cond func() bool, d time.Duration) bool {
		deadline := time.Now().Add(d)
		for time.Now().Before(deadline) {
			if cond() {
				return true
			}
			time.Sleep(200 * time.Microsecond)
		}
		return cond()
	}
	for si, st := range b.Steps {
		res.Checked++
		switch st.Op {
		case "create":
			// every instance has its own tracer (so that its traces are its own) but all are
			// built through the one builder and fed by the one event fan-out
			itr := tracing.NewTracer(ctx)
			in := &inst{ch: make(chan tracing.ITrace, 256)}
			itr.SubscribeChannel(in.ch)
			p, err := engine.NewProcess(defs, bpmn.WithTracer(itr), bpmn.WithContext(ctx),
				bpmn.WithProcessEventDefinitionInstanceBuilder(builder), bpmn.WithEventEgress(fanOut), bpmn.WithEventIngress(fanOut))
			if err != nil {
				bad("step %d: newprocess: %v", si, err)
				return res
			}
			in.p = p
			insts[st.Inst] = in
			go func() {
				for tr := range in.ch {
					switch t := tracing.Unwrap(tr).(type) {
					case bpmn.TaskTrace:
						id := ""
						if p, ok := t.GetActivity().Element().Id(); ok {
							id = *p
						}
						in.mu.Lock()
						if id == "T" {
							in.t = t
						} else if id == "U" {
							in.cont++
							go t.Do()
						}
						in.mu.Unlock()
					case bpmn.ActiveListeningTrace:
						in.mu.Lock()
						in.listening++
						in.mu.Unlock()
					}
				}
			}()
			if err := p.StartAll(ctx); err != nil {
				bad("step %d: startall: %v", si, err)
				return res
			}
			if !waitFor(func() bool { in.mu.Lock(); defer in.mu.Unlock(); return in.t != nil }, T) {
				bad("step %d: task T of instance %d was not requested", si, st.Inst)
				return res
			}
		case "arm":
			in := insts[st.Inst]
			in.mu.Lock()
			t := in.t
			in.mu.Unlock()
			t.Do()
			if !waitFor(func() bool { in.mu.Lock(); defer in.mu.Unlock(); return in.listening > 0 }, T) {
				bad("step %d: the timer catch event of instance %d did not start listening", si, st.Inst)
				return res
			}
		case "advance":
			mock.Add(time.Duration(st.D) * time.Second)
		}
		// expected continuations must show up (bounded wait); then a short settle for surplus ones
		ok := waitFor(func() bool {
			for i, in := range insts {
				in.mu.Lock()
				c := in.cont
				in.mu.Unlock()
				if i-1 < len(st.Cont) && c < st.Cont[i-1] {
					return false
				}
			}
			return true
		}, T)
		time.Sleep(3 * time.Millisecond)
		for i, in := range insts {
			in.mu.Lock()
			c := in.cont
			in.mu.Unlock()
			want := 0
			if i-1 < len(st.Cont) {
				want = st.Cont[i-1]
			}
			if c != want {
				bad("%s timer D=%ds, step %d (%s inst=%d d=%d, clock +%ds): the timer catch event of instance %d has continued %d time(s), the model says %d (waited=%v)",
					b.Kind, b.D, si, st.Op, st.Inst, st.D, st.Now, i, c, want, ok)
				return res
			}
		}
	}
	return res
}
