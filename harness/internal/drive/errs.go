package drive

import (
	"errors"

	berrors "github.com/olive-io/bpmn/v2/pkg/errors"
)

// classifyErr maps an engine error to (kind, node id).
func classifyErr(err error) (string, string) {
	var te berrors.TaskExecError
	if errors.As(err, &te) {
		return "taskexec", te.Id
	}
	var sp *berrors.SubProcessError
	if errors.As(err, &sp) {
		return "subprocess", sp.Id
	}
	var nf berrors.NotFoundError
	if errors.As(err, &nf) {
		return "notfound", ""
	}
	var ia berrors.InvalidArgumentError
	if errors.As(err, &ia) {
		return "invalidarg", ""
	}
	var is berrors.InvalidStateError
	if errors.As(err, &is) {
		return "invalidstate", ""
	}
	return "other:" + err.Error(), ""
}
