// Package drive runs one real engine instance under a scripted environment
// schedule and records the observation log that the TLA+ trace
// specifications validate.  The driver is deliberately dumb: it performs the
// environment actions of a schedule, waiting (bounded) for the observable
// counters the schedule names as precondition, and records everything the
// instance's tracer emits plus its own calls, under one mutex and one
// sequence.  All judgement is left to the specification.
package drive

import (
	"context"
	"errors"
	"fmt"
	"math/rand"
	"sort"
	"strings"
	"sync"
	"time"

	bpmn "github.com/olive-io/bpmn/v2"
	"github.com/olive-io/bpmn/v2/pkg/event"
	"github.com/olive-io/bpmn/v2/pkg/tracing"

	"github.com/olive-io/bpmn/schema"

	"verif/harness/internal/prog"
	"verif/harness/internal/render"
	"verif/harness/internal/sched"
)

// Rec is one line of the observation log.  All fields are always present.
type Rec struct {
	Run   int            `json:"run"`
	Ev    string         `json:"ev"`
	Node  string         `json:"node"`
	Occ   int            `json:"occ"`
	Flows []string       `json:"flows"`
	Vars  map[string]int `json:"vars"`
	Kind  string         `json:"kind"`
	Ok    bool           `json:"ok"`
	N     int            `json:"n"`
	Fids  []string       `json:"fids"` // flow ids of a flow trace
}

// Step is one environment action of a schedule.
//
//	op = answer : Do on the Occ-th request of task Node with results Vars
//	     (Kind = "" ok | "err" | "retry" | "skip" | "exit", N = retries)
//	op = again  : a further Do on an already answered request (must be a no-op)
//	op = deliver: ConsumeEvent(Kind signal|message, Node = ref)
//	op = wait   : WaitUntilComplete with a short timeout (N ms); result logged
//	op = cancel : cancel the instance context
//
// Pre maps observable counters ("req:t1", "listen:c1", "end:e1", "err:x1",
// "done") to the cumulative number that must have been observed before the
// step is performed.
type Step struct {
	Op   string         `json:"op"`
	Node string         `json:"node"`
	Occ  int            `json:"occ"`
	Vars map[string]int `json:"vars"`
	Kind string         `json:"kind"`
	N    int            `json:"n"`
	Pre  map[string]int `json:"pre"`
	// Cands: payloads of concurrently issued first answers (op = answerc)
	Cands []map[string]int `json:"cands"`
	// Evs: events delivered concurrently (op = deliverc)
	Evs []EvRef `json:"evs"`
}

type EvRef struct {
	K   string `json:"k"`
	Ref string `json:"ref"`
}

type Schedule struct {
	Prog   int            `json:"prog"`   // index into the program list
	Steps  []Step         `json:"steps"`  //
	Expect string         `json:"expect"` // complete | stuck | "" (unknown)
	Final  map[string]int `json:"final"`  // counters expected at the end (informational wait)
}

type Options struct {
	T       time.Duration // bound for every awaited observation
	StuckT  time.Duration // wait used when the schedule expects non-completion
	Grace   time.Duration // surplus-trace grace period after the end
	Lang    string
	Seed    int64
	// ConcurrentStart: the start events are triggered by concurrent StartWith calls (one each)
	ConcurrentStart bool
	// Instant: every request is answered at once, from the goroutine reading the trace stream
	Instant bool
	Auto    bool                // after the schedule: keep answering pending requests (random order) until completion
	Perturb int                 // 0 none, 1 random delays at hooks
	Defs    *schema.Definitions // optional pre-built definitions (round-trip checks)
	Sub2    bool                // attach a second subscriber and compare the two streams
	// RoundTrip: serialise the parsed definitions, parse that again, compare the two
	// models structurally and run the instance on the re-parsed model (C15)
	RoundTrip bool
	// Concurrent: after the schedule, answer every pending request from its own
	// goroutine, deliver awaited events from goroutines, and keep reading variables,
	// waiting and (un)subscribing from further goroutines meanwhile (C17)
	Concurrent bool
	// Linger: after a step's precondition holds, wait this long before acting, so that an
	// observable the engine produces too EARLY (before the environment action that should
	// enable it) is logged before that action instead of hiding behind it
	Linger time.Duration
	// EarlyWait: call WaitUntilComplete (1 ms) the moment StartAll has returned, when the
	// schedule shows that a task request must be answered before the instance can complete
	EarlyWait bool
	// EagerDeliver: an event is delivered as soon as the catch events IT addresses listen,
	// without waiting for the other catch events to be armed (the winner of an event-based
	// gateway is then determined while the other alternatives are still on their way)
	EagerDeliver bool
	// EagerAnswer: a task is answered as soon as ITS request exists, without waiting for what the
	// preceding steps cause (an answer racing the events delivered just before it)
	EagerAnswer bool
}

func DefaultOptions() Options {
	return Options{T: 5 * time.Second, StuckT: 250 * time.Millisecond, Grace: 15 * time.Millisecond}
}

type pendingReq struct {
	tt       bpmn.TaskTrace
	occ      int
	answered bool
}

type runner struct {
	mu     sync.Mutex
	cond   *sync.Cond
	log    []Rec
	cnt    map[string]int
	reqs   map[string][]*pendingReq
	run    int
	p      *prog.Program
	closed bool
	nans   map[string]int
	// instant: see Options.Instant
	instant bool
	// events: the event objects handed over so far, by kind and name
	events map[string]event.IEvent
}

func (r *runner) hasBoundary(node string) bool {
	for _, n := range r.p.Nodes {
		if n.Kind == "boundary" && n.Attached == node {
			return true
		}
	}
	return false
}

func (r *runner) add(rec Rec) {
	rec.Run = r.run
	if rec.Flows == nil {
		rec.Flows = []string{}
	}
	if rec.Vars == nil {
		rec.Vars = map[string]int{}
	}
	if rec.Fids == nil {
		rec.Fids = []string{}
	}
	r.log = append(r.log, rec)
}

func (r *runner) bump(key string) {
	r.cnt[key]++
	r.cond.Broadcast()
}

func nodeId(n schema.FlowNodeInterface) string {
	if n == nil {
		return ""
	}
	if id, ok := n.Id(); ok {
		return *id
	}
	return ""
}

func elemId(e any) string {
	switch x := e.(type) {
	case schema.FlowNodeInterface:
		return nodeId(x)
	case schema.BaseElementInterface:
		if id, ok := x.Id(); ok {
			return *id
		}
	}
	return ""
}

// observe projects one engine trace onto a log record (under r.mu).
func (r *runner) observe(tr tracing.ITrace) {
	tr = tracing.Unwrap(tr)
	r.mu.Lock()
	defer r.mu.Unlock()
	switch t := tr.(type) {
	case bpmn.TaskTrace:
		id := elemId(t.GetActivity().Element())
		occ := len(r.reqs[id]) + 1
		r.reqs[id] = append(r.reqs[id], &pendingReq{tt: t, occ: occ})
		cancelled := t.Context() != nil && t.Context().Err() != nil
		r.add(Rec{Ev: "req", Node: id, Occ: occ, Ok: !cancelled})
		r.bump("req:" + id)
		if r.instant {
			// answered the moment it appears, from the goroutine that reads the trace stream
			q := r.reqs[id][occ-1]
			q.answered = true
			vars := map[string]int{}
			res := map[string]any{}
			if n := r.p.Node(id); n != nil {
				for _, w := range n.Writes {
					if d := r.p.Dom[w]; len(d) > 0 {
						// loops end after a few rounds: the second value of a two-valued variable
						// ("again") is chosen for the first two requests only
						v := d[0]
						if len(d) == 2 && occ <= 2 {
							v = d[1]
						} else if len(d) > 2 {
							v = d[occ%len(d)]
						}
						vars[w] = v
						res[w] = v
					}
				}
			}
			r.add(Rec{Ev: "ans", Node: id, Occ: occ, Vars: copyVars(vars)})
			r.mu.Unlock()
			t.Do(bpmn.DoWithResults(res))
			r.mu.Lock()
		}
	case bpmn.VisitTrace:
		r.add(Rec{Ev: "visit", Node: nodeId(t.Node)})
		r.bump("visit:" + nodeId(t.Node))
	case bpmn.LeaveTrace:
		r.add(Rec{Ev: "leave", Node: nodeId(t.Node)})
	case bpmn.NewFlowTrace:
		r.add(Rec{Ev: "newflow", Kind: t.FlowId.String()})
	case bpmn.FlowTrace:
		fl := []string{}
		fids := []string{}
		for _, s := range t.Flows {
			fids = append(fids, s.Id().String())
			id := ""
			if sf := s.SequenceFlow(); sf != nil {
				if p, ok := sf.Id(); ok {
					id = *p
				}
			}
			fl = append(fl, id)
		}
		r.add(Rec{Ev: "flow", Node: nodeId(t.Source), Flows: fl, Fids: fids, Kind: t.Origin.String()})
		r.bump("flow:" + nodeId(t.Source))
	case bpmn.CompletionTrace:
		id := nodeId(t.Node)
		r.add(Rec{Ev: "completion", Node: id})
		r.bump("end:" + id)
	case bpmn.TerminationTrace:
		r.add(Rec{Ev: "termination", Node: nodeId(t.Source), Kind: t.FlowId.String()})
		r.bump("term:" + nodeId(t.Source))
	case bpmn.CeaseFlowTrace:
		r.add(Rec{Ev: "cease", Node: elemId(t.Process)})
		r.bump("cease")
	case bpmn.ErrorTrace:
		kind, node := "other", ""
		var xe bpmn.ExclusiveNoEffectiveSequenceFlows
		var ie bpmn.InclusiveNoEffectiveSequenceFlows
		switch {
		case errors.As(t.Error, &xe):
			kind = "noflow"
			if id, ok := xe.ExclusiveGateway.Id(); ok {
				node = *id
			}
		case errors.As(t.Error, &ie):
			kind = "noflow"
			if id, ok := ie.InclusiveGateway.Id(); ok {
				node = *id
			}
		default:
			kind, node = classifyErr(t.Error)
		}
		r.add(Rec{Ev: "error", Node: node, Kind: kind})
		r.bump("err:" + node)
	case bpmn.ActiveListeningTrace:
		id := ""
		if p, ok := t.Node.Id(); ok {
			id = *p
		}
		r.add(Rec{Ev: "listening", Node: id})
		r.bump("listen:" + id)
	case bpmn.EventObservedTrace:
		id := ""
		if p, ok := t.Node.Id(); ok {
			id = *p
		}
		k, ref := evName(t.Event)
		r.add(Rec{Ev: "observed", Node: id, Kind: k, Flows: []string{ref}})
		r.bump("observed:" + id)
	case bpmn.ActiveBoundaryTrace:
		r.add(Rec{Ev: "boundary", Node: nodeId(t.Node), Ok: t.Start})
		if t.Start {
			r.bump("active:" + nodeId(t.Node))
		} else {
			r.bump("inactive:" + nodeId(t.Node))
		}
	case bpmn.DeterminationMadeTrace:
		r.add(Rec{Ev: "determination", Node: nodeId(t.Node)})
	case bpmn.ProcessLandMarkTrace:
		r.add(Rec{Ev: "landmark", Node: nodeId(t.Node)})
		r.bump("landmark:" + nodeId(t.Node))
	case bpmn.InstantiationTrace:
		r.add(Rec{Ev: "instantiation", Kind: t.InstanceId.String()})
	case bpmn.CancellationFlowTrace:
		r.add(Rec{Ev: "cancelflow", Node: nodeId(t.Node)})
	case bpmn.CancellationFlowNodeTrace:
		r.add(Rec{Ev: "cancelnode", Node: nodeId(t.Node)})
	case bpmn.IncomingFlowProcessedTrace:
		// bookkeeping trace of the parallel gateway: not an observable of any property
		// (level-M fidelity validation uses it: EngineTrace)
		r.add(Rec{Ev: "ifp", Node: elemId(t.Node)})
	default:
		r.add(Rec{Ev: "other", Kind: fmt.Sprintf("%T", tr)})
	}
}

// traceSig is a compact identity of a trace used to compare two subscribers.
func traceSig(tr tracing.ITrace) string {
	tr = tracing.Unwrap(tr)
	switch t := tr.(type) {
	case bpmn.NewFlowTrace:
		return "newflow:" + t.FlowId.String()
	case bpmn.VisitTrace:
		return "visit:" + nodeId(t.Node)
	case bpmn.LeaveTrace:
		return "leave:" + nodeId(t.Node)
	case bpmn.TerminationTrace:
		return "term:" + t.FlowId.String()
	case bpmn.FlowTrace:
		s := "flow:" + nodeId(t.Source)
		for _, f := range t.Flows {
			s += "," + f.Id().String()
		}
		return s
	case bpmn.CompletionTrace:
		return "completion:" + nodeId(t.Node)
	case bpmn.TaskTrace:
		return "task:" + elemId(t.GetActivity().Element())
	}
	return fmt.Sprintf("%T", tr)
}

func evName(e event.IEvent) (string, string) {
	switch x := e.(type) {
	case *event.SignalEvent:
		return "signal", *x.SignalRef()
	case *event.MessageEvent:
		return "message", *x.MessageRef()
	case event.TimerEvent:
		return "timer", ""
	}
	return fmt.Sprintf("%T", e), ""
}

func (r *runner) waitPre(pre map[string]int, T time.Duration) (string, bool) {
	deadline := time.Now().Add(T)
	timer := time.AfterFunc(T+time.Millisecond, func() { r.mu.Lock(); r.cond.Broadcast(); r.mu.Unlock() })
	defer timer.Stop()
	keys := make([]string, 0, len(pre))
	for k := range pre {
		keys = append(keys, k)
	}
	sort.Strings(keys)
	r.mu.Lock()
	defer r.mu.Unlock()
	for {
		missing := ""
		for _, k := range keys {
			if r.cnt[k] < pre[k] {
				missing = k
				break
			}
		}
		if missing == "" {
			return "", true
		}
		if time.Now().After(deadline) {
			return missing, false
		}
		r.cond.Wait()
	}
}

// callWithin runs f in a goroutine and reports whether it returned within T.
func callWithin(T time.Duration, f func()) bool {
	done := make(chan struct{})
	go func() { f(); close(done) }()
	select {
	case <-done:
		return true
	case <-time.After(T):
		return false
	}
}

// Run executes one schedule.  It never panics by itself; a panic inside an
// engine goroutine kills the process (the caller runs batches in worker
// processes and attributes the crash to the run in progress).
func Run(runIdx int, p *prog.Program, sch *Schedule, o Options) []Rec {
	r := &runner{cnt: map[string]int{}, reqs: map[string][]*pendingReq{}, run: runIdx, p: p, nans: map[string]int{}}
	r.cond = sync.NewCond(&r.mu)
	r.instant = o.Instant
	rng := rand.New(rand.NewSource(o.Seed + int64(runIdx)*7919))

	defs := o.Defs
	if defs == nil {
		var err error
		defs, err = render.Definitions(p, render.Options{Lang: o.Lang, Rich: o.RoundTrip})
		if err != nil {
			r.add(Rec{Ev: "infra", Kind: "parse: " + err.Error()})
			return r.log
		}
	}
	var rtRec *Rec
	if o.RoundTrip {
		defs2, rec := RoundTrip(defs, render.XML(p, render.Options{Lang: o.Lang, Rich: true}))
		rtRec = &rec
		if defs2 != nil {
			defs = defs2
		}
	}
	ctx, cancel := context.WithCancel(context.Background())
	defer cancel()

	vars := map[string]any{}
	for k, v := range p.Vars0 {
		vars[k] = v
	}
	engine := bpmn.NewEngine()
	opts := []bpmn.Option{bpmn.WithContext(ctx)}
	if len(vars) > 0 {
		opts = append(opts, bpmn.WithVariables(vars))
	}
	inst, err := engine.NewProcess(defs, opts...)
	if err != nil {
		r.add(Rec{Ev: "infra", Kind: "newprocess: " + err.Error()})
		return r.log
	}
	ch := make(chan tracing.ITrace, 8192)
	inst.Tracer().SubscribeChannel(ch)
	// scheduling aid (never a verdict): a token has registered at a catch event
	sched.SetObserver(func(point string, args ...any) {
		if point == "catch.arm" && len(args) > 0 {
			if id := elemId(args[0]); id != "" {
				r.mu.Lock()
				r.bump("arm:" + id)
				r.mu.Unlock()
			}
		}
	})
	defer sched.SetObserver(nil)
	var seq1, seq2 []string
	var seqMu sync.Mutex
	var ch2 chan tracing.ITrace
	if o.Sub2 {
		ch2 = make(chan tracing.ITrace, 8192)
		inst.Tracer().SubscribeChannel(ch2)
		go func() {
			for tr := range ch2 {
				seqMu.Lock()
				seq2 = append(seq2, traceSig(tr))
				seqMu.Unlock()
			}
		}()
	}
	collectorDone := make(chan struct{})
	go func() {
		defer close(collectorDone)
		for tr := range ch {
			if o.Sub2 {
				seqMu.Lock()
				seq1 = append(seq1, traceSig(tr))
				seqMu.Unlock()
			}
			r.observe(tr)
		}
	}()

	r.mu.Lock()
	r.add(Rec{Ev: "init", N: sch.Prog, Vars: copyVars(p.Vars0), Kind: p.Name})
	if rtRec != nil {
		r.add(*rtRec)
	}
	r.mu.Unlock()

	startOK := callWithin(o.T, func() {
		if o.ConcurrentStart {
			// every start event is triggered by its own StartWith call, all at the same time
			if procs := defs.Processes(); len(*procs) > 0 {
				starts := (*procs)[0].StartEvents()
				if len(*starts) >= 2 {
					var wg sync.WaitGroup
					gate := make(chan struct{})
					for i := range *starts {
						el := &(*starts)[i]
						wg.Add(1)
						go func() {
							defer wg.Done()
							<-gate
							if err := inst.StartWith(ctx, el); err != nil {
								r.mu.Lock()
								r.add(Rec{Ev: "infra", Kind: "startwith: " + err.Error()})
								r.mu.Unlock()
							}
						}()
					}
					close(gate)
					wg.Wait()
					return
				}
			}
		}
		if err := inst.StartAll(ctx); err != nil {
			r.mu.Lock()
			r.add(Rec{Ev: "infra", Kind: "startall: " + err.Error()})
			r.mu.Unlock()
		}
	})
	r.mu.Lock()
	r.add(Rec{Ev: "started", Ok: startOK})
	r.mu.Unlock()
	if o.EarlyWait && startOK && len(sch.Steps) > 0 {
		must := false
		for k, v := range sch.Steps[0].Pre {
			if strings.HasPrefix(k, "req:") && v > 0 {
				must = true
			}
		}
		if must {
			wctx, wcancel := context.WithTimeout(context.Background(), time.Millisecond)
			early := inst.WaitUntilComplete(wctx)
			wcancel()
			r.mu.Lock()
			r.add(Rec{Ev: "wait", Ok: early, N: 0, Occ: 1})
			r.mu.Unlock()
		}
	}

	aborted := false
	if startOK && !o.Instant {
		for i := range sch.Steps {
			st := &sch.Steps[i]
			pre := st.Pre
			if o.EagerDeliver && st.Op == "deliver" {
				pre = map[string]int{}
				for k, v := range st.Pre {
					if strings.HasPrefix(k, "listen:") || strings.HasPrefix(k, "arm:") || strings.HasPrefix(k, "visit:") {
						addressed := false
						if n := p.Node(k[strings.Index(k, ":")+1:]); n != nil {
							for _, e := range n.Evs {
								if e.K == st.Kind && e.Ref == st.Node {
									addressed = true
								}
							}
						}
						if !addressed {
							continue
						}
					}
					pre[k] = v
				}
			}
			if o.EagerAnswer && st.Op == "answer" {
				pre = map[string]int{"req:" + st.Node: st.Occ}
			}
			if o.EagerAnswer && st.Op == "deliver" {
				// ... and a delivery waits for the listeners it addresses (and for their hosts to
				// be waiting), not for what the steps before it cause
				keep := map[string]int{}
				for k, v := range pre {
					if strings.HasPrefix(k, "listen:") || strings.HasPrefix(k, "arm:") || strings.HasPrefix(k, "visit:") {
						keep[k] = v
					}
				}
				for _, n := range p.Nodes {
					if n.Kind != "boundary" {
						continue
					}
					if v, ok := pre["req:"+n.Attached]; ok {
						keep["req:"+n.Attached] = v
					}
				}
				pre = keep
			}
			// "arm:" counters are known through a hook only: wait for them briefly and go on
			// regardless; a delivery that could not be synchronised is recorded as racy
			soft := map[string]int{}
			hard := map[string]int{}
			for k, v := range pre {
				if strings.HasPrefix(k, "arm:") {
					if st.Op == "deliver" || st.Op == "deliverc" {
						soft[k] = v
					}
				} else {
					hard[k] = v
				}
			}
			pre = hard
			unsynced := false
			if miss, ok := r.waitPre(pre, o.T); !ok {
				r.mu.Lock()
				r.add(Rec{Ev: "timeout", Kind: miss, N: i})
				r.mu.Unlock()
				aborted = true
				// drain: the expected observation did not come.  Keep answering
				// what can be answered (remaining scheduled answers first, then
				// anything pending) so that the final state shows whether the
				// instance is stuck with nothing left for the environment to do.
				if !r.drain(ctx, cancel, inst, sch.Steps[i:], o, rng) {
					break
				}
				break
			}
			if len(soft) > 0 && !o.EagerDeliver {
				if _, ok := r.waitPre(soft, 400*time.Millisecond); !ok {
					unsynced = true
				}
			}
			if o.Linger > 0 {
				time.Sleep(o.Linger)
			}
			po := o
			if unsynced {
				po.EagerDeliver = true // recorded as a racy delivery
			}
			if !r.perform(ctx, cancel, inst, st, po, rng) {
				aborted = true
				break
			}
		}
	}
	if o.Concurrent && startOK && !aborted {
		r.concurrent(ctx, inst, o, rng)
	} else if o.Auto && startOK && !aborted {
		r.auto(inst, o, rng)
	}

	// final wait
	T := o.T
	if sch.Expect == "stuck" || aborted || !startOK {
		T = o.StuckT
	}
	wctx, wcancel := context.WithTimeout(context.Background(), T)
	done := inst.WaitUntilComplete(wctx)
	wcancel()
	time.Sleep(o.Grace)
	pend := 0
	r.mu.Lock()
	for _, l := range r.reqs {
		for _, q := range l {
			if !q.answered {
				pend++
			}
		}
	}
	fv := map[string]int{}
	for k, it := range inst.Locator().CloneVariables() {
		fv[k] = toInt(it.Value())
	}
	if o.Sub2 {
		r.mu.Unlock()
		same := false
		for i := 0; i < 40 && !same; i++ {
			seqMu.Lock()
			same = len(seq1) == len(seq2)
			if same {
				for k := range seq1 {
					if seq1[k] != seq2[k] {
						same = false
						i = 40
						break
					}
				}
			}
			seqMu.Unlock()
			if !same {
				time.Sleep(5 * time.Millisecond)
			}
		}
		r.mu.Lock()
		r.add(Rec{Ev: "sub2", Ok: same, N: len(seq1)})
	}
	r.add(Rec{Ev: "fin", Ok: done, N: pend, Vars: fv})
	r.closed = true
	out := append([]Rec(nil), r.log...)
	r.mu.Unlock()
	cancel()
	go func() {
		// drain until the tracer closes the channel so the instance can shut down
		inst.Tracer().Unsubscribe(ch)
	}()
	return out
}

func toInt(v any) int {
	switch x := v.(type) {
	case int:
		return x
	case int64:
		return int(x)
	case int32:
		return int(x)
	case float64:
		return int(x)
	case bool:
		if x {
			return 1
		}
		return 0
	}
	return -999
}

func copyVars(m map[string]int) map[string]int {
	o := map[string]int{}
	for k, v := range m {
		o[k] = v
	}
	return o
}

func (r *runner) findReq(node string, occ int) *pendingReq {
	l := r.reqs[node]
	if occ >= 1 && occ <= len(l) {
		return l[occ-1]
	}
	return nil
}

func (r *runner) perform(ctx context.Context, cancel context.CancelFunc, inst *bpmn.Process, st *Step, o Options, rng *rand.Rand) bool {
	switch st.Op {
	case "answer", "again":
		r.mu.Lock()
		q := r.findReq(st.Node, st.Occ)
		if q == nil {
			r.add(Rec{Ev: "timeout", Kind: "req:" + st.Node, N: st.Occ})
			r.mu.Unlock()
			return false
		}
		ev := "ans"
		if st.Op == "again" {
			ev = "again"
		}
		r.add(Rec{Ev: ev, Node: st.Node, Occ: st.Occ, Vars: copyVars(st.Vars), Kind: st.Kind, N: st.N})
		q.answered = true
		r.mu.Unlock()
		res := map[string]any{"zz_undeclared": 7}
		for k, v := range st.Vars {
			res[k] = v
		}
		var dopts []bpmn.DoOption
		if len(res) > 0 {
			dopts = append(dopts, bpmn.DoWithResults(res))
		}
		switch st.Kind {
		case "err":
			dopts = append(dopts, bpmn.DoWithErr(fmt.Errorf("boom")))
		case "retry", "skip", "exit":
			hch := make(chan bpmn.ErrHandler, 1)
			mode := map[string]bpmn.ErrHandleMode{"retry": bpmn.RetryMode, "skip": bpmn.SkipMode, "exit": bpmn.ExitMode}[st.Kind]
			hch <- bpmn.ErrHandler{Mode: mode, Retries: int32(st.N)}
			dopts = append(dopts, bpmn.DoWithErrHandle(fmt.Errorf("boom"), hch))
		}
		ok := callWithin(o.T, func() { q.tt.Do(dopts...) })
		if !ok {
			r.mu.Lock()
			r.add(Rec{Ev: "blocked", Kind: "do", Node: st.Node, Occ: st.Occ})
			r.mu.Unlock()
			return false
		}
		if st.Op == "answer" && r.hasBoundary(st.Node) {
			// the host stops offering events to its boundary events only when
			// the engine has taken the answer: wait for that (bounded, not an
			// error) so that a following delivery does not race with the answer
			r.mu.Lock()
			r.nans[st.Node]++
			want := r.nans[st.Node]
			r.mu.Unlock()
			r.waitPre(map[string]int{"inactive:" + st.Node: want}, 300*time.Millisecond)
		}
	case "answerc":
		r.mu.Lock()
		q := r.findReq(st.Node, st.Occ)
		if q == nil {
			r.add(Rec{Ev: "timeout", Kind: "req:" + st.Node, N: st.Occ})
			r.mu.Unlock()
			return false
		}
		for _, cnd := range st.Cands {
			r.add(Rec{Ev: "cand", Node: st.Node, Occ: st.Occ, Vars: copyVars(cnd)})
		}
		r.add(Rec{Ev: "ansc", Node: st.Node, Occ: st.Occ, N: len(st.Cands)})
		q.answered = true
		r.mu.Unlock()
		var wg sync.WaitGroup
		gate := make(chan struct{})
		for _, cnd := range st.Cands {
			res := map[string]any{}
			for k, v := range cnd {
				res[k] = v
			}
			wg.Add(1)
			go func() {
				defer wg.Done()
				<-gate
				q.tt.Do(bpmn.DoWithResults(res))
			}()
		}
		close(gate)
		if !callWithin(o.T, wg.Wait) {
			r.mu.Lock()
			r.add(Rec{Ev: "blocked", Kind: "do", Node: st.Node, Occ: st.Occ})
			r.mu.Unlock()
			return false
		}
	case "deliver":
		r.mu.Lock()
		if o.EagerDeliver {
			// not synchronised with the tokens still on their way: may be seen either way there
			r.add(Rec{Ev: "deliverx", Kind: st.Kind, Node: st.Node})
		} else {
			r.add(Rec{Ev: "deliver", Kind: st.Kind, Node: st.Node})
		}
		r.mu.Unlock()
		// on every second run an event of one kind and name is ONE object, handed over again
		// for each delivery (an application may well keep its events around)
		var ev event.IEvent
		key := st.Kind + "/" + st.Node
		if r.run%2 == 1 && r.events[key] != nil {
			ev = r.events[key]
		} else if st.Kind == "message" {
			ev = event.NewMessageEvent(st.Node, nil)
		} else {
			ev = event.NewSignalEvent(st.Node)
		}
		if r.events == nil {
			r.events = map[string]event.IEvent{}
		}
		r.events[key] = ev
		ok := callWithin(o.T, func() { _, _ = inst.ConsumeEvent(ev) })
		r.mu.Lock()
		if ok {
			r.add(Rec{Ev: "delivered", Kind: st.Kind, Node: st.Node})
		} else {
			r.add(Rec{Ev: "blocked", Kind: "consume", Node: st.Node})
		}
		r.mu.Unlock()
		if !ok {
			return false
		}
	case "deliverc":
		r.mu.Lock()
		for _, e := range st.Evs {
			r.add(Rec{Ev: "deliver", Kind: e.K, Node: e.Ref})
		}
		r.mu.Unlock()
		var wg sync.WaitGroup
		gate := make(chan struct{})
		for _, e := range st.Evs {
			e := e
			wg.Add(1)
			go func() {
				defer wg.Done()
				var ev event.IEvent
				if e.K == "message" {
					ev = event.NewMessageEvent(e.Ref, nil)
				} else {
					ev = event.NewSignalEvent(e.Ref)
				}
				<-gate
				_, _ = inst.ConsumeEvent(ev)
				r.mu.Lock()
				r.add(Rec{Ev: "delivered", Kind: e.K, Node: e.Ref})
				r.mu.Unlock()
			}()
		}
		close(gate)
		if !callWithin(o.T, wg.Wait) {
			r.mu.Lock()
			r.add(Rec{Ev: "blocked", Kind: "consume"})
			r.mu.Unlock()
			return false
		}
	case "wait":
		d := time.Duration(st.N) * time.Millisecond
		if d == 0 {
			d = 30 * time.Millisecond
		}
		k := st.Occ
		if k < 1 {
			k = 1
		}
		results := make([]bool, k)
		var wg sync.WaitGroup
		for i := 0; i < k; i++ {
			wg.Add(1)
			go func(i int) {
				defer wg.Done()
				wctx, wcancel := context.WithTimeout(context.Background(), d)
				results[i] = inst.WaitUntilComplete(wctx)
				wcancel()
			}(i)
		}
		wg.Wait()
		r.mu.Lock()
		pend := 0
		for _, l := range r.reqs {
			for _, q := range l {
				if !q.answered {
					pend++
				}
			}
		}
		for i := 0; i < k; i++ {
			r.add(Rec{Ev: "wait", Ok: results[i], N: pend, Occ: st.N})
		}
		r.mu.Unlock()
	case "cancel":
		r.mu.Lock()
		r.add(Rec{Ev: "cancel"})
		r.mu.Unlock()
		cancel()
	case "sleep":
		time.Sleep(time.Duration(st.N) * time.Millisecond)
	}
	return true
}

// drain answers the remaining scheduled answers whose request exists, then
// every other pending request (empty result), until nothing new appears for a
// while.
func (r *runner) drain(ctx context.Context, cancel context.CancelFunc, inst *bpmn.Process, rest []Step, o Options, rng *rand.Rand) bool {
	quiet := 0
	for budget := 0; budget < 200 && quiet < 4; budget++ {
		var st *Step
		r.mu.Lock()
		for i := range rest {
			if rest[i].Op != "answer" {
				continue
			}
			if q := r.findReq(rest[i].Node, rest[i].Occ); q != nil && !q.answered {
				st = &rest[i]
				break
			}
		}
		if st == nil {
			ids := make([]string, 0, len(r.reqs))
			for id := range r.reqs {
				ids = append(ids, id)
			}
			sort.Strings(ids)
		outer:
			for _, id := range ids {
				for _, q := range r.reqs[id] {
					if !q.answered {
						st = &Step{Op: "answer", Node: id, Occ: q.occ, Vars: map[string]int{}}
						break outer
					}
				}
			}
		}
		r.mu.Unlock()
		if st == nil {
			quiet++
			time.Sleep(60 * time.Millisecond)
			continue
		}
		quiet = 0
		if !r.perform(ctx, cancel, inst, st, o, rng) {
			return false
		}
	}
	return true
}

// auto keeps answering pending requests in random order with random values
// from the program's domains until nothing is pending for a while or the
// instance completes.
func (r *runner) auto(inst *bpmn.Process, o Options, rng *rand.Rand) {
	idle := 0
	budget := 400
	for budget > 0 {
		r.mu.Lock()
		var cands []*pendingReq
		var names []string
		for id, l := range r.reqs {
			for _, q := range l {
				if !q.answered {
					cands = append(cands, q)
					names = append(names, id)
				}
			}
		}
		if r.cnt["cease"] > 0 {
			r.mu.Unlock()
			return
		}
		if len(cands) == 0 {
			r.mu.Unlock()
			idle++
			if idle > 40 {
				return
			}
			time.Sleep(5 * time.Millisecond)
			continue
		}
		idle = 0
		// deterministic order of candidates before the random pick
		idx := make([]int, len(cands))
		for i := range idx {
			idx[i] = i
		}
		sort.Slice(idx, func(a, b int) bool {
			if names[idx[a]] != names[idx[b]] {
				return names[idx[a]] < names[idx[b]]
			}
			return cands[idx[a]].occ < cands[idx[b]].occ
		})
		k := idx[rng.Intn(len(idx))]
		q, id := cands[k], names[k]
		vars := map[string]int{}
		if n := r.p.Node(id); n != nil {
			for _, w := range n.Writes {
				if d := r.p.Dom[w]; len(d) > 0 {
					vars[w] = d[rng.Intn(len(d))]
				}
			}
		}
		r.add(Rec{Ev: "ans", Node: id, Occ: q.occ, Vars: copyVars(vars)})
		q.answered = true
		r.mu.Unlock()
		res := map[string]any{}
		for k, v := range vars {
			res[k] = v
		}
		if rng.Intn(3) == 0 {
			time.Sleep(time.Duration(rng.Intn(300)) * time.Microsecond)
		}
		if !callWithin(o.T, func() { q.tt.Do(bpmn.DoWithResults(res)) }) {
			r.mu.Lock()
			r.add(Rec{Ev: "blocked", Kind: "do", Node: id, Occ: q.occ})
			r.mu.Unlock()
			return
		}
		budget--
	}
}

// concurrent drives the instance from many goroutines at once.
func (r *runner) concurrent(ctx context.Context, inst *bpmn.Process, o Options, rng *rand.Rand) {
	stop := make(chan struct{})
	var noise sync.WaitGroup
	for g := 0; g < 5; g++ {
		noise.Add(1)
		go func(g int) {
			if g == 4 {
				g = 1 // a second goroutine waiting for completion at the same time
			}
			defer noise.Done()
			for {
				select {
				case <-stop:
					return
				default:
				}
				switch g {
				case 0:
					for _, it := range inst.Locator().CloneVariables() {
						// a snapshot's items are read after the lock is released
						_ = it.Value()
						_ = it.Type()
					}
					_ = inst.Locator().CloneItems("$")
					_ = inst.Locator().CloneItems(".")
					_ = inst.Locator().CloneItems("#")
				case 1:
					wctx, wc := context.WithTimeout(context.Background(), time.Millisecond)
					inst.WaitUntilComplete(wctx)
					wc()
				case 2:
					ch := inst.Tracer().SubscribeChannel(make(chan tracing.ITrace, 64))
					time.Sleep(200 * time.Microsecond)
					inst.Tracer().Unsubscribe(ch)
				case 3:
					_, _ = inst.Locator().GetVariable("v1")
				}
				time.Sleep(100 * time.Microsecond)
			}
		}(g)
	}
	delivered := map[string]int{}
	idle := 0
	var doers sync.WaitGroup
	for budget := 0; budget < 600 && idle < 60; budget++ {
		r.mu.Lock()
		if r.cnt["cease"] > 0 {
			r.mu.Unlock()
			break
		}
		type job struct {
			q    *pendingReq
			id   string
			vars map[string]int
		}
		var jobs []job
		for id, l := range r.reqs {
			for _, q := range l {
				if !q.answered {
					vars := map[string]int{}
					if n := r.p.Node(id); n != nil {
						for _, w := range n.Writes {
							if d := r.p.Dom[w]; len(d) > 0 {
								vars[w] = d[rng.Intn(len(d))]
							}
						}
					}
					q.answered = true
					r.add(Rec{Ev: "ans", Node: id, Occ: q.occ, Vars: copyVars(vars)})
					jobs = append(jobs, job{q, id, vars})
				}
			}
		}
		// deliver the event of every catch event that announced it listens
		type dl struct{ k, ref string }
		var dls []dl
		for _, n := range r.p.Nodes {
			if (n.Kind == "catch" || n.Kind == "boundary") && len(n.Evs) > 0 {
				want := r.cnt["listen:"+n.Id]
				if n.Kind == "boundary" {
					want = r.cnt["active:"+n.Attached]
				}
				if delivered[n.Id] < want {
					delivered[n.Id]++
					e := n.Evs[delivered[n.Id]%len(n.Evs)]
					r.add(Rec{Ev: "deliverx", Kind: e.K, Node: e.Ref})
					dls = append(dls, dl{e.K, e.Ref})
				}
			}
		}
		r.mu.Unlock()
		if len(jobs) == 0 && len(dls) == 0 {
			idle++
			time.Sleep(3 * time.Millisecond)
			continue
		}
		idle = 0
		for _, j := range jobs {
			j := j
			doers.Add(1)
			go func() {
				defer doers.Done()
				res := map[string]any{}
				for k, v := range j.vars {
					res[k] = v
				}
				// the same answer is given from two goroutines at once: one of them is effective,
				// the other returns without effect (and both touch the request concurrently)
				var twice sync.WaitGroup
				for k := 0; k < 2; k++ {
					twice.Add(1)
					go func() {
						defer twice.Done()
						j.q.tt.Do(bpmn.DoWithResults(res), bpmn.DoWithObjects(map[string]any{"obj": len(res)}))
					}()
				}
				twice.Wait()
			}()
		}
		for _, d := range dls {
			d := d
			doers.Add(1)
			go func() {
				defer doers.Done()
				var ev event.IEvent
				if d.k == "message" {
					ev = event.NewMessageEvent(d.ref, nil)
				} else {
					ev = event.NewSignalEvent(d.ref)
				}
				_, _ = inst.ConsumeEvent(ev)
				r.mu.Lock()
				r.add(Rec{Ev: "delivered", Kind: d.k, Node: d.ref})
				r.mu.Unlock()
			}()
		}
	}
	callWithin(o.T, doers.Wait)
	close(stop)
	noise.Wait()
}
