package drive

import (
	"context"
	"fmt"
	"sync"
	"sync/atomic"
	"time"

	"github.com/olive-io/bpmn/schema"
	"github.com/olive-io/bpmn/v2/pkg/clock"
	"github.com/olive-io/bpmn/v2/pkg/timer"
)

// TimerDef mirrors the definition record of Timer.tla (times in seconds).
type TimerDef struct {
	Kind     string `json:"kind"` // date | duration | cycle
	Due      int    `json:"due"`
	Start    int    `json:"start"`
	Interval int    `json:"interval"`
	N        int    `json:"n"`
	End      int    `json:"end"`
	HasStart bool   `json:"hasstart"` // cycle: explicit start in the expression (else: creation time = 0)
	// Far: the due time (date) / end bound (cycle) lies centuries ahead (a "never" sentinel):
	// the model's value is merely beyond every clock reading of the grid, the real definition
	// says year 2300 / 9999
	Far bool `json:"far"`
}

type TimerStep struct {
	Op     string `json:"op"` // set | cancel
	T      int    `json:"t"`
	Fires  int    `json:"fires"`
	Closed bool   `json:"closed"`
}

type TimerSchedule struct {
	Def   int         `json:"def"`
	Steps []TimerStep `json:"steps"`
	// Race > 0: the first clock change is not held back until the timer has armed itself but
	// issued from another goroutine at the moment the timer is created (after a short spin of
	// Race x 600 iterations): the clock jumps while the timer goroutine is arming
	Race int `json:"race"`
	// SubSec (definitions whose times count from the timer's creation only): the timer is created
	// 750 ms past a whole second and every clock reading keeps that offset; before a step that
	// moves the clock on by one second the clock is first set half a second short of it, where
	// nothing new may fire
	SubSec bool `json:"subsec"`
}

// TmRec is one record of a timer run.
type TmRec struct {
	Run int    `json:"run"`
	Ev  string `json:"ev"`
	Def int    `json:"def"`
	T   int    `json:"t"`
}

func iso(sec int) string {
	switch sec {
	case FarA:
		return "2300-01-01T00:00:00Z"
	case FarB:
		return "9999-12-31T23:59:59Z"
	}
	return time.Unix(int64(sec), 0).UTC().Format("2006-01-02T15:04:05Z")
}

// model times standing for instants centuries ahead
const (
	FarA = 2000000
	FarB = 3000000
)

// Expr renders the definition as the ISO-8601 text of a timerEventDefinition.
func (d TimerDef) Expr() (field, text string) {
	switch d.Kind {
	case "date":
		return "timeDate", iso(d.Due)
	case "duration":
		return "timeDuration", fmt.Sprintf("PT%dS", d.Due)
	}
	r := "R"
	if d.N >= 0 {
		r = fmt.Sprintf("R%d", d.N)
	}
	switch {
	case d.HasStart:
		return "timeCycle", fmt.Sprintf("%s/%s/PT%dS", r, iso(d.Start), d.Interval)
	case d.End >= 0:
		return "timeCycle", fmt.Sprintf("%s/PT%dS/%s", r, d.Interval, iso(d.End))
	}
	return "timeCycle", fmt.Sprintf("%s/PT%dS", r, d.Interval)
}

func (d TimerDef) schemaDef() (schema.TimerEventDefinition, error) {
	field, text := d.Expr()
	xml := fmt.Sprintf(`<?xml version="1.0" encoding="UTF-8"?><bpmn:definitions xmlns:bpmn="http://www.omg.org/spec/BPMN/20100524/MODEL" xmlns:xsi="http://www.w3.org/2001/XMLSchema-instance" id="d"><bpmn:process id="p"><bpmn:intermediateCatchEvent id="c"><bpmn:timerEventDefinition><bpmn:%s xsi:type="bpmn:tFormalExpression">%s</bpmn:%s></bpmn:timerEventDefinition></bpmn:intermediateCatchEvent></bpmn:process></bpmn:definitions>`, field, text, field)
	defs, err := schema.Parse([]byte(xml))
	if err != nil {
		return schema.TimerEventDefinition{}, err
	}
	ce := (*(*defs.Processes())[0].IntermediateCatchEvents())[0]
	tds := ce.TimerEventDefinitionField
	if len(tds) != 1 {
		return schema.TimerEventDefinition{}, fmt.Errorf("timer definition not parsed")
	}
	return tds[0], nil
}

// spyClock counts Until calls so the harness can tell that the timer
// goroutine has re-armed after a wake-up.
type spyClock struct {
	*clock.Mock
	untils atomic.Int64
}

func (s *spyClock) Until(t time.Time) <-chan time.Time {
	ch := s.Mock.Until(t)
	s.untils.Add(1)
	return ch
}

// TimerRun replays one clock schedule on the real timer.
func TimerRun(run int, defs []TimerDef, sc TimerSchedule, T time.Duration) []TmRec {
	var mu sync.Mutex
	var log []TmRec
	add := func(r TmRec) { r.Run = run; r.Def = sc.Def; log = append(log, r) }
	d := defs[sc.Def]
	sd, err := d.schemaDef()
	if err != nil {
		return []TmRec{{Run: run, Ev: "infra", Def: sc.Def}}
	}
	off := int64(0)
	if sc.SubSec {
		off = int64(750 * time.Millisecond)
	}
	mock := &spyClock{Mock: clock.NewMockAt(time.Unix(0, off))}
	ctx, cancel := context.WithCancel(context.Background())
	defer cancel()
	add(TmRec{Ev: "init"})
	raced := make(chan struct{})
	racing := sc.Race > 0 && len(sc.Steps) > 0 && sc.Steps[0].Op == "set"
	if racing {
		gate := make(chan struct{})
		add(TmRec{Ev: "set", T: sc.Steps[0].T})
		go func() {
			defer close(raced)
			<-gate
			x := 0
			for i := 0; i < sc.Race*600; i++ {
				x += i
			}
			_ = x
			mock.Set(time.Unix(int64(sc.Steps[0].T), off))
		}()
		close(gate)
	}
	ch, err := timer.New(ctx, mock, sd)
	if err != nil {
		return []TmRec{{Run: run, Ev: "infra", Def: sc.Def}}
	}
	fires := 0
	closed := false
	cond := sync.NewCond(&mu)
	go func() {
		for range ch {
			now := int(mock.Now().Unix())
			mu.Lock()
			add(TmRec{Ev: "fire", T: now})
			fires++
			cond.Broadcast()
			mu.Unlock()
		}
		mu.Lock()
		add(TmRec{Ev: "closed"})
		closed = true
		cond.Broadcast()
		mu.Unlock()
	}()
	waitFor := func(wantFires int, wantClosed bool) {
		deadline := time.Now().Add(T)
		tm := time.AfterFunc(T+time.Millisecond, func() { mu.Lock(); cond.Broadcast(); mu.Unlock() })
		defer tm.Stop()
		mu.Lock()
		for (fires < wantFires || (wantClosed && !closed)) && time.Now().Before(deadline) {
			cond.Wait()
		}
		mu.Unlock()
	}
	// let the timer goroutine arm itself
	if !racing {
		time.Sleep(300 * time.Microsecond)
	}
	cancelled := false
	prevT := 0
	for si, st := range sc.Steps {
		switch st.Op {
		case "set":
			if sc.SubSec && !(racing && si == 0) && st.T-prevT == 1 {
				// half a second short of the next whole second since creation: nothing is due yet
				mock.Set(time.Unix(int64(st.T), off-int64(500*time.Millisecond)))
				time.Sleep(1500 * time.Microsecond)
			}
			prevT = st.T
			u0 := mock.untils.Load()
			mu.Lock()
			f0 := fires
			if racing && si == 0 {
				f0 = 0
				mu.Unlock()
				<-raced
			} else {
				add(TmRec{Ev: "set", T: st.T})
				mu.Unlock()
				mock.Set(time.Unix(int64(st.T), off))
			}
			if !cancelled {
				waitFor(st.Fires, st.Closed)
			}
			// grace: lets an unexpected extra firing show up, and lets the timer re-arm
			for i := 0; i < 20; i++ {
				mu.Lock()
				fired := fires > f0
				cl := closed
				mu.Unlock()
				if cl || (fired && mock.untils.Load() > u0) {
					break
				}
				if !fired && i >= 3 {
					break
				}
				time.Sleep(200 * time.Microsecond)
			}
			time.Sleep(150 * time.Microsecond)
			mu.Lock()
			add(TmRec{Ev: "quiet"})
			mu.Unlock()
		case "cancel":
			mu.Lock()
			add(TmRec{Ev: "cancel"})
			mu.Unlock()
			cancel()
			cancelled = true
			time.Sleep(300 * time.Microsecond)
		}
	}
	mu.Lock()
	add(TmRec{Ev: "end"})
	out := append([]TmRec(nil), log...)
	mu.Unlock()
	return out
}
