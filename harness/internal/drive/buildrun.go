package drive

import (
	"context"
	"fmt"
	"math"
	"time"

	bpmn "github.com/olive-io/bpmn/v2"
	"github.com/olive-io/bpmn/v2/pkg/tracing"

	"github.com/olive-io/bpmn/schema"

	"verif/harness/internal/alpha"
)

// BuildSpec is one build exported by Builder.tla with the layout it must have.
type BuildSpec struct {
	Cfg struct {
		Sx int `json:"sx"`
		Sy int `json:"sy"`
		Cg int `json:"cg"`
		Rg int `json:"rg"`
		Pg int `json:"pg"`
	} `json:"cfg"`
	// AutoLayout calls made earlier on the same builder (after N processes had been added)
	Early []struct {
		N int `json:"n"`
		C struct {
			Sx int `json:"sx"`
			Sy int `json:"sy"`
			Cg int `json:"cg"`
			Rg int `json:"rg"`
			Pg int `json:"pg"`
		} `json:"c"`
	} `json:"early"`
	// Reuse: one ProcessBuilder is used for all processes of the build (after Out it starts a new process)
	Reuse bool `json:"reuse"`
	Procs []struct {
		Acts []struct {
			Type   string `json:"type"`
			Preset bool   `json:"preset"`
		} `json:"acts"`
		Shapes []struct {
			X int `json:"x"`
			Y int `json:"y"`
			W int `json:"w"`
			H int `json:"h"`
		} `json:"shapes"`
	} `json:"procs"`
}

func newActivity(typ string) schema.ActivityInterface {
	switch typ {
	case "task":
		t := schema.DefaultTask()
		return &t
	case "serviceTask":
		t := schema.DefaultServiceTask()
		return &t
	case "userTask":
		t := schema.DefaultUserTask()
		return &t
	case "scriptTask":
		t := schema.DefaultScriptTask()
		return &t
	case "manualTask":
		t := schema.DefaultManualTask()
		return &t
	case "sendTask":
		t := schema.DefaultSendTask()
		return &t
	case "receiveTask":
		t := schema.DefaultReceiveTask()
		return &t
	case "businessRuleTask":
		t := schema.DefaultBusinessRuleTask()
		return &t
	case "callActivity":
		t := schema.DefaultCallActivity()
		return &t
	case "subProcess":
		t := schema.DefaultSubProcess()
		return &t
	}
	return nil
}

func goType(typ string) string {
	return map[string]string{"task": "*schema.Task", "serviceTask": "*schema.ServiceTask", "userTask": "*schema.UserTask",
		"scriptTask": "*schema.ScriptTask", "manualTask": "*schema.ManualTask", "sendTask": "*schema.SendTask",
		"receiveTask": "*schema.ReceiveTask", "businessRuleTask": "*schema.BusinessRuleTask", "callActivity": "*schema.CallActivity",
		"subProcess": "*schema.SubProcess"}[typ]
}

// BuildRun replays the build on the real builders and compares the result
// with the specification's model of it.
func BuildRun(run int, b BuildSpec) ValueResult {
	res := ValueResult{Run: run, Mismatches: []string{}}
	bad := func(format string, a ...any) { res.Mismatches = append(res.Mismatches, fmt.Sprintf(format, a...)) }
	db := schema.NewDefinitionsBuilder()
	presetIds := map[string]bool{}
	hasSub := false
	shared := schema.NewProcessBuilder()
	for pi, p := range b.Procs {
		pb := shared
		if !b.Reuse {
			pb = schema.NewProcessBuilder()
		}
		for ai, a := range p.Acts {
			act := newActivity(a.Type)
			if a.Preset {
				id := fmt.Sprintf("preset_%d_%d", pi, ai)
				act.SetId(&id)
				presetIds[id] = true
			}
			if a.Type == "subProcess" {
				hasSub = true
			}
			pb.AddActivity(act)
		}
		db.AddProcess(*pb.Out())
		for _, e := range b.Early {
			if e.N == pi+1 {
				db.AutoLayout(&schema.AutoLayoutConfig{StartX: float64(e.C.Sx), StartY: float64(e.C.Sy), ColumnGap: float64(e.C.Cg), RowGap: float64(e.C.Rg), ProcessGap: float64(e.C.Pg)})
			}
		}
	}
	cfg := &schema.AutoLayoutConfig{StartX: float64(b.Cfg.Sx), StartY: float64(b.Cfg.Sy), ColumnGap: float64(b.Cfg.Cg), RowGap: float64(b.Cfg.Rg), ProcessGap: float64(b.Cfg.Pg)}
	db.AutoLayout(cfg)
	defs := db.Out()
	res.Checked++

	// ---- well-formedness ----
	seen := map[string]int{}
	for _, id := range alpha.AllIds(defs) {
		seen[id]++
	}
	for id, n := range seen {
		if n > 1 {
			bad("id %q is used %d times", id, n)
		}
	}
	procs := *defs.Processes()
	if len(procs) != len(b.Procs) {
		bad("%d processes, want %d", len(procs), len(b.Procs))
		return res
	}
	type shape struct{ x, y, w, h float64 }
	expectShape := map[string]shape{}
	var flowEnds [][3]string // flow id, src, dst
	var chains [][]string
	for pi := range procs {
		pr := &procs[pi]
		nodes := map[string]schema.FlowNodeInterface{}
		for _, fe := range pr.FlowElements() {
			if n, ok := fe.(schema.FlowNodeInterface); ok {
				if id, ok := n.Id(); ok {
					nodes[*id] = n
				}
			}
		}
		want := len(b.Procs[pi].Acts) + 2
		if len(nodes) != want {
			bad("process %d has %d flow nodes, want %d", pi, len(nodes), want)
		}
		flows := *pr.SequenceFlows()
		if len(flows) != want-1 {
			bad("process %d has %d sequence flows, want %d", pi, len(flows), want-1)
		}
		for i := range flows {
			f := &flows[i]
			fid, _ := f.Id()
			src, dst := string(*f.SourceRef()), string(*f.TargetRef())
			sn, ok1 := nodes[src]
			dn, ok2 := nodes[dst]
			if !ok1 || !ok2 {
				bad("flow %s: an end does not exist (%s -> %s)", *fid, src, dst)
				continue
			}
			if !hasQ(sn.Outgoings(), *fid) {
				bad("flow %s is not listed in the outgoing flows of its source %s (%T)", *fid, src, sn)
			}
			if !hasQ(dn.Incomings(), *fid) {
				bad("flow %s is not listed in the incoming flows of its target %s (%T)", *fid, dst, dn)
			}
			flowEnds = append(flowEnds, [3]string{*fid, src, dst})
		}
		starts := *pr.StartEvents()
		ends := *pr.EndEvents()
		if len(starts) != 1 || len(ends) != 1 {
			bad("process %d: %d start / %d end events", pi, len(starts), len(ends))
			continue
		}
		if len(*starts[0].Incomings()) != 0 {
			bad("process %d: start event has incoming flows", pi)
		}
		if len(*ends[0].Outgoings()) != 0 {
			bad("process %d: end event has outgoing flows", pi)
		}
		// follow the chain from the start event: activities in insertion order
		sid, _ := starts[0].Id()
		cur := *sid
		var chain []string
		for steps := 0; steps <= want+1; steps++ {
			chain = append(chain, cur)
			out := nodes[cur].Outgoings()
			if out == nil || len(*out) == 0 {
				break
			}
			next := ""
			for i := range flows {
				if id, _ := flows[i].Id(); *id == string((*out)[0]) {
					next = string(*flows[i].TargetRef())
				}
			}
			if next == "" {
				bad("process %d: outgoing flow %s of %s does not exist", pi, (*out)[0], cur)
				break
			}
			cur = next
		}
		if len(chain) != want {
			bad("process %d: chain from the start event has %d nodes, want %d", pi, len(chain), want)
		} else {
			for ai, a := range b.Procs[pi].Acts {
				n := nodes[chain[ai+1]]
				if fmt.Sprintf("%T", n) != goType(a.Type) {
					bad("process %d: activity %d is %T, want %s", pi, ai, n, goType(a.Type))
				}
				if a.Preset && chain[ai+1] != fmt.Sprintf("preset_%d_%d", pi, ai) {
					bad("process %d: activity %d lost its preset id (%s)", pi, ai, chain[ai+1])
				}
			}
			for k, id := range chain {
				s := b.Procs[pi].Shapes[k]
				expectShape[id] = shape{float64(s.X), float64(s.Y), float64(s.W), float64(s.H)}
			}
		}
		chains = append(chains, chain)
	}
	// ---- layout ----
	if defs.DiagramField == nil || defs.DiagramField.BPMNPlaneField == nil {
		bad("AutoLayout produced no diagram")
	} else {
		plane := defs.DiagramField.BPMNPlaneField
		got := map[string]shape{}
		for i := range plane.BPMNShapeFields {
			sh := &plane.BPMNShapeFields[i]
			el, ok := sh.BpmnElement()
			if !ok || sh.BoundsField == nil {
				bad("a shape has no element / bounds")
				continue
			}
			if _, dup := got[string(*el)]; dup {
				bad("two shapes for node %s", *el)
			}
			bd := sh.BoundsField
			g := shape{float64(bd.X()), float64(bd.Y()), float64(bd.Width()), float64(bd.Height())}
			for _, v := range []float64{g.x, g.y, g.w, g.h} {
				if math.IsNaN(v) || math.IsInf(v, 0) {
					bad("shape of %s has a non-finite coordinate", *el)
				}
			}
			got[string(*el)] = g
		}
		for id, w := range expectShape {
			g, ok := got[id]
			if !ok {
				bad("no shape for flow node %s", id)
			} else if g != w {
				bad("shape of %s is %+v, the specification says %+v", id, g, w)
			}
		}
		if len(got) != len(expectShape) {
			bad("%d shapes for %d flow nodes", len(got), len(expectShape))
		}
		edges := map[string]int{}
		for i := range plane.BPMNEdgeFields {
			ed := &plane.BPMNEdgeFields[i]
			el, ok := ed.BpmnElement()
			if !ok {
				bad("an edge has no element")
				continue
			}
			edges[string(*el)]++
			for _, fe := range flowEnds {
				if fe[0] != string(*el) {
					continue
				}
				wp := ed.WaypointField
				if len(wp) < 2 {
					bad("edge of %s has %d waypoints", fe[0], len(wp))
					continue
				}
				s, okS := got[fe[1]]
				d, okD := got[fe[2]]
				if !okS || !okD {
					continue
				}
				if float64(wp[0].X()) != s.x+s.w || float64(wp[0].Y()) != s.y+s.h/2 {
					bad("edge of %s does not start on the right side of its source shape", fe[0])
				}
				last := wp[len(wp)-1]
				if float64(last.X()) != d.x || float64(last.Y()) != d.y+d.h/2 {
					bad("edge of %s does not end on the left side of its target shape", fe[0])
				}
			}
		}
		for _, fe := range flowEnds {
			if edges[fe[0]] != 1 {
				bad("%d edges for sequence flow %s", edges[fe[0]], fe[0])
			}
		}
	}
	// ---- XML round trip ----
	if _, rec := RoundTrip(defs, ""); !rec.Ok {
		bad("round trip: %s", rec.Kind)
	}
	// ---- run: activities requested once each in insertion order, completion ----
	if len(b.Procs) == 1 && !hasSub && len(res.Mismatches) == 0 {
		ctx, cancel := context.WithCancel(context.Background())
		defer cancel()
		inst, err := bpmn.NewEngine().NewProcess(defs, bpmn.WithContext(ctx))
		if err != nil {
			bad("engine.NewProcess: %v", err)
			return res
		}
		ch := make(chan tracing.ITrace, 4096)
		inst.Tracer().SubscribeChannel(ch)
		if err := inst.StartAll(ctx); err != nil {
			bad("StartAll: %v", err)
			return res
		}
		var order []string
		deadline := time.After(5 * time.Second)
	loop:
		for {
			select {
			case tr := <-ch:
				switch t := tracing.Unwrap(tr).(type) {
				case bpmn.TaskTrace:
					order = append(order, elemId(t.GetActivity().Element()))
					t.Do()
				case bpmn.CeaseFlowTrace:
					break loop
				}
			case <-deadline:
				bad("the built process did not run to completion (requested so far: %v)", order)
				break loop
			}
		}
		want := chains[0][1 : len(chains[0])-1]
		if fmt.Sprint(order) != fmt.Sprint(want) {
			bad("activities requested %v, want %v (once each, in insertion order)", order, want)
		}
	}
	return res
}

func hasQ(qs *[]schema.QName, id string) bool {
	if qs == nil {
		return false
	}
	for _, q := range *qs {
		if string(q) == id {
			return true
		}
	}
	return false
}
