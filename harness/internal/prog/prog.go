// Package prog is the shared abstract syntax of BPMN programs: the same JSON
// drives the TLA+ specifications (spec/BpmnProgram.tla reads it with
// JsonDeserialize) and the Go renderer / driver.  Every field is always
// emitted (no omitempty) so that TLC sees uniform records.
package prog

import (
	"encoding/json"
	"fmt"
	"sort"
)

// Cond is a tiny predicate over one small-integer variable.
// K: none | informal | lt | le | eq | ne | ge | gt | true | false
type Cond struct {
	K string `json:"k"`
	V string `json:"v"`
	C int    `json:"c"`
}

type Flow struct {
	Id   string `json:"id"`
	Src  string `json:"src"`
	Dst  string `json:"dst"`
	Cond Cond   `json:"cond"`
}

// EvDef is an event definition of a catch / boundary / start / throw event.
// K: signal | message | timer
type EvDef struct {
	K   string `json:"k"`
	Ref string `json:"ref"`
}

// Node kinds: start end task xor and or evgw catch throw sub boundary
type Node struct {
	Id       string   `json:"id"`
	Kind     string   `json:"kind"`
	Scope    string   `json:"scope"` // "" top level, else id of the enclosing sub node
	In       []string `json:"in"`
	Out      []string `json:"out"`
	Default  string   `json:"dflt"`
	Writes   []string `json:"writes"`   // declared result names of a task
	Evs      []EvDef  `json:"evs"`      // event definitions
	Parallel bool     `json:"parallel"` // parallelMultiple
	Attached string   `json:"attached"` // boundary: host activity
	Intr     bool     `json:"intr"`     // boundary: cancelActivity
	Retries  int      `json:"retries"`
}

type Program struct {
	Name  string         `json:"name"`
	Nodes []Node         `json:"nodes"`
	Flows []Flow         `json:"flows"`
	Vars0 map[string]int `json:"vars0"`
	// Dom is the value domain the environment may write for each variable.
	Dom map[string][]int `json:"dom"`
	// Tags classify the program for known-finding signatures and evidence.
	Tags []string `json:"tags"`
}

func (p *Program) Node(id string) *Node {
	for i := range p.Nodes {
		if p.Nodes[i].Id == id {
			return &p.Nodes[i]
		}
	}
	return nil
}

func (p *Program) Flow(id string) *Flow {
	for i := range p.Flows {
		if p.Flows[i].Id == id {
			return &p.Flows[i]
		}
	}
	return nil
}

func (p *Program) HasTag(t string) bool {
	for _, x := range p.Tags {
		if x == t {
			return true
		}
	}
	return false
}

// Normalize fills nil slices/maps so that JSON never contains null.
func (p *Program) Normalize() {
	for i := range p.Nodes {
		n := &p.Nodes[i]
		if n.In == nil {
			n.In = []string{}
		}
		if n.Out == nil {
			n.Out = []string{}
		}
		if n.Writes == nil {
			n.Writes = []string{}
		}
		if n.Evs == nil {
			n.Evs = []EvDef{}
		}
	}
	if p.Vars0 == nil {
		p.Vars0 = map[string]int{}
	}
	if p.Dom == nil {
		p.Dom = map[string][]int{}
	}
	if p.Tags == nil {
		p.Tags = []string{}
	}
	if p.Flows == nil {
		p.Flows = []Flow{}
	}
}

// Check verifies the structural well-formedness assumptions shared with
// BpmnProgram!WellFormed.
func (p *Program) Check() error {
	ids := map[string]bool{}
	for _, n := range p.Nodes {
		if ids[n.Id] {
			return fmt.Errorf("duplicate id %s", n.Id)
		}
		ids[n.Id] = true
	}
	for _, f := range p.Flows {
		if ids[f.Id] {
			return fmt.Errorf("duplicate id %s", f.Id)
		}
		ids[f.Id] = true
		s, d := p.Node(f.Src), p.Node(f.Dst)
		if s == nil || d == nil {
			return fmt.Errorf("flow %s dangling", f.Id)
		}
		if !contains(s.Out, f.Id) || !contains(d.In, f.Id) {
			return fmt.Errorf("flow %s not listed by its ends", f.Id)
		}
		if s.Kind == "boundary" {
			if p.Node(s.Attached) == nil || p.Node(s.Attached).Scope != d.Scope {
				return fmt.Errorf("flow %s crosses scopes", f.Id)
			}
		} else if s.Scope != d.Scope {
			return fmt.Errorf("flow %s crosses scopes", f.Id)
		}
	}
	for _, n := range p.Nodes {
		for _, f := range append(append([]string{}, n.In...), n.Out...) {
			if p.Flow(f) == nil {
				return fmt.Errorf("node %s lists unknown flow %s", n.Id, f)
			}
		}
		if n.Kind == "start" && len(n.In) != 0 {
			return fmt.Errorf("start %s has incoming", n.Id)
		}
		if n.Kind == "end" && len(n.Out) != 0 {
			return fmt.Errorf("end %s has outgoing", n.Id)
		}
		if n.Default != "" && !contains(n.Out, n.Default) {
			return fmt.Errorf("default of %s is not outgoing", n.Id)
		}
		if n.Scope != "" && (p.Node(n.Scope) == nil || p.Node(n.Scope).Kind != "sub") {
			return fmt.Errorf("scope of %s is not a sub-process", n.Id)
		}
	}
	return nil
}

func contains(xs []string, x string) bool {
	for _, y := range xs {
		if y == x {
			return true
		}
	}
	return false
}

func (p *Program) JSON() []byte {
	p.Normalize()
	b, err := json.Marshal(p)
	if err != nil {
		panic(err)
	}
	return b
}

// VarNames returns the sorted variable names.
func (p *Program) VarNames() []string {
	m := map[string]bool{}
	for k := range p.Vars0 {
		m[k] = true
	}
	for k := range p.Dom {
		m[k] = true
	}
	for _, n := range p.Nodes {
		for _, w := range n.Writes {
			m[w] = true
		}
	}
	out := make([]string, 0, len(m))
	for k := range m {
		out = append(out, k)
	}
	sort.Strings(out)
	return out
}

// Builder helps constructing programs.
type Builder struct {
	P    Program
	next int
}

func NewBuilder(name string) *Builder {
	b := &Builder{}
	b.P.Name = name
	b.P.Vars0 = map[string]int{}
	b.P.Dom = map[string][]int{}
	return b
}

func (b *Builder) fresh(prefix string) string {
	b.next++
	return fmt.Sprintf("%s%d", prefix, b.next)
}

func (b *Builder) AddNode(kind, scope string) string {
	id := b.fresh(map[string]string{"start": "s", "end": "e", "task": "t", "xor": "x", "and": "a", "or": "o",
		"evgw": "g", "catch": "c", "throw": "h", "sub": "p", "boundary": "b"}[kind])
	b.P.Nodes = append(b.P.Nodes, Node{Id: id, Kind: kind, Scope: scope})
	return id
}

func (b *Builder) N(id string) *Node { return b.P.Node(id) }

func (b *Builder) Connect(src, dst string, c Cond) string {
	if c.K == "" {
		c.K = "none"
	}
	id := b.fresh("f")
	b.P.Flows = append(b.P.Flows, Flow{Id: id, Src: src, Dst: dst, Cond: c})
	s, d := b.P.Node(src), b.P.Node(dst)
	s.Out = append(s.Out, id)
	d.In = append(d.In, id)
	return id
}

func (b *Builder) Done() *Program {
	b.P.Normalize()
	if err := b.P.Check(); err != nil {
		panic(fmt.Sprintf("program %s ill-formed: %v", b.P.Name, err))
	}
	p := b.P
	return &p
}
