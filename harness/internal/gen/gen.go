// Package gen produces program families: random block-structured programs
// (seeded) and enumerated shape tables for the gateway properties.
package gen

import (
	"fmt"
	"math/rand"
	"sort"

	"verif/harness/internal/prog"
)

// Features switch block kinds on.
type Features struct {
	Xor, And, Or, Loop, CondFlow, Sub, NoDefault, EndInBranch bool
	MaxDepth, MaxSize, MaxBranch, SubWeight                   int
}

type G struct {
	b    *prog.Builder
	r    *rand.Rand
	f    Features
	nvar int
	tags map[string]bool
	ctx  []string // kinds of the enclosing blocks, outermost first
}

// enter records that a block of kind k is being generated inside the current
// context and tags the program "k-in-e" for every enclosing block kind e.
func (g *G) enter(k string) func() {
	g.tag(k)
	for _, e := range g.ctx {
		g.tag(k + "-in-" + e)
	}
	g.ctx = append(g.ctx, k)
	return func() { g.ctx = g.ctx[:len(g.ctx)-1] }
}

func (g *G) tag(t string) { g.tags[t] = true }

func (g *G) freshVar(dom []int) string {
	g.nvar++
	v := fmt.Sprintf("v%d", g.nvar)
	g.b.P.Dom[v] = dom
	return v
}

// decision creates the variable a gateway reads: either an input variable
// (initial value, never written) or the result of a decision task placed
// directly before the gateway.  Returns the variable and the decision task
// ("" if input).
func (g *G) decision(scope string, dom []int) (string, string) {
	v := g.freshVar(dom)
	g.b.P.Vars0[v] = dom[g.r.Intn(len(dom))]
	if g.r.Intn(3) == 0 {
		return v, ""
	}
	t := g.b.AddNode("task", scope)
	g.b.N(t).Writes = []string{v}
	return v, t
}

func (g *G) task(scope string) (string, string) {
	t := g.b.AddNode("task", scope)
	return t, t
}

// block builds a single-entry fragment; out == "" means every path of the
// fragment already ended in an end event.
func (g *G) block(scope string, depth, size int, noTerm bool) (in, out string) {
	if depth >= g.f.MaxDepth || size <= 1 {
		return g.task(scope)
	}
	var kinds []string
	kinds = append(kinds, "task", "seq", "seq")
	if g.f.Xor {
		kinds = append(kinds, "xor", "xor")
	}
	if g.f.And {
		kinds = append(kinds, "and", "and")
	}
	if g.f.Or {
		kinds = append(kinds, "or", "or")
	}
	if g.f.Loop {
		kinds = append(kinds, "loop")
	}
	if g.f.CondFlow && !noTerm {
		kinds = append(kinds, "condflow")
	}
	if g.f.Sub {
		kinds = append(kinds, "sub")
		for i := 0; i < g.f.SubWeight; i++ {
			kinds = append(kinds, "sub")
		}
	}
	switch kinds[g.r.Intn(len(kinds))] {
	case "seq":
		i1, o1 := g.block(scope, depth+1, size/2, noTerm)
		if o1 == "" {
			return i1, ""
		}
		i2, o2 := g.block(scope, depth+1, size-size/2, noTerm)
		g.b.Connect(o1, i2, prog.Cond{})
		return i1, o2
	case "xor":
		return g.split("xor", scope, depth, size, noTerm)
	case "or":
		return g.split("or", scope, depth, size, noTerm)
	case "and":
		defer g.enter("and")()
		k := 2 + g.r.Intn(g.f.MaxBranch-1)
		fork := g.b.AddNode("and", scope)
		join := g.b.AddNode("and", scope)
		for i := 0; i < k; i++ {
			// a branch of a parallel block must reach the join (a token that
			// ended elsewhere would leave the join waiting for ever)
			bi, bo := g.block(scope, depth+1, size/k, true)
			g.b.Connect(fork, bi, prog.Cond{})
			g.b.Connect(bo, join, prog.Cond{})
		}
		return fork, join
	case "loop":
		defer g.enter("loop")()
		m := g.b.AddNode("xor", scope)
		bi, bo := g.block(scope, depth+1, size-2, noTerm)
		g.b.Connect(m, bi, prog.Cond{})
		if bo == "" {
			return m, ""
		}
		c := g.freshVar([]int{0, 1})
		g.b.P.Vars0[c] = 0
		d := g.b.AddNode("task", scope)
		g.b.N(d).Writes = []string{c}
		g.b.Connect(bo, d, prog.Cond{})
		x := g.b.AddNode("xor", scope)
		g.b.Connect(d, x, prog.Cond{})
		g.b.Connect(x, m, prog.Cond{K: "eq", V: c, C: 1})
		m2 := g.b.AddNode("xor", scope)
		df := g.b.Connect(x, m2, prog.Cond{})
		g.b.N(x).Default = df
		return m, m2
	case "condflow":
		defer g.enter("condflow")()
		v := g.freshVar([]int{0, 1, 2})
		g.b.P.Vars0[v] = g.r.Intn(3)
		t := g.b.AddNode("task", scope)
		g.b.N(t).Writes = []string{v}
		k := 2 + g.r.Intn(2)
		for i := 0; i < k; i++ {
			bi, bo := g.block(scope, depth+1, size/k, false)
			g.b.Connect(t, bi, g.randCond(v, 3, i, k))
			if bo != "" {
				e := g.b.AddNode("end", scope)
				g.b.Connect(bo, e, prog.Cond{})
			}
		}
		return t, ""
	case "sub":
		defer g.enter("sub")()
		p := g.b.AddNode("sub", scope)
		s := g.b.AddNode("start", p)
		bi, bo := g.block(p, depth+1, size-1, false)
		g.b.Connect(s, bi, prog.Cond{})
		if bo != "" {
			e := g.b.AddNode("end", p)
			g.b.Connect(bo, e, prog.Cond{})
		}
		return p, p
	}
	return g.task(scope)
}

func (g *G) randCond(v string, nvals, i, k int) prog.Cond {
	ops := []string{"eq", "ne", "ge", "lt", "le", "gt"}
	switch g.r.Intn(6) {
	case 0:
		return prog.Cond{K: "none"}
	case 1:
		return prog.Cond{K: ops[g.r.Intn(len(ops))], V: v, C: g.r.Intn(nvals)}
	}
	return prog.Cond{K: "eq", V: v, C: i % nvals}
}

// split builds an exclusive or inclusive split/merge block.
func (g *G) split(kind, scope string, depth, size int, noTerm bool) (string, string) {
	defer g.enter(kind)()
	k := 2 + g.r.Intn(g.f.MaxBranch-1)
	dom := []int{0, 1, 2}
	v, d := g.decision(scope, dom)
	fork := g.b.AddNode(kind, scope)
	join := g.b.AddNode(kind, scope)
	if d != "" {
		g.b.Connect(d, fork, prog.Cond{})
	}
	hasDefault := !(g.f.NoDefault && g.r.Intn(4) == 0)
	defPos := g.r.Intn(k)
	for i := 0; i < k; i++ {
		var bi, bo string
		if g.f.EndInBranch && !noTerm && g.r.Intn(5) == 0 {
			bi, _ = g.task(scope)
			e := g.b.AddNode("end", scope)
			g.b.Connect(bi, e, prog.Cond{})
			bo = ""
			g.tag(kind + "-endbranch")
		} else {
			bi, bo = g.block(scope, depth+1, size/k, noTerm)
		}
		var c prog.Cond
		if hasDefault && i == defPos {
			c = prog.Cond{}
			// a default flow may carry a condition too; it is ignored
			if g.r.Intn(4) == 0 {
				c = prog.Cond{K: "false"}
			}
		} else {
			c = g.randCond(v, 3, i, k)
			if c.K == "none" {
				c = prog.Cond{K: "ge", V: v, C: 1}
			}
		}
		f := g.b.Connect(fork, bi, c)
		if hasDefault && i == defPos {
			g.b.N(fork).Default = f
		}
		if bo != "" {
			g.b.Connect(bo, join, prog.Cond{})
		}
	}
	if !hasDefault {
		g.tag(kind + "-nodefault")
	}
	if len(g.b.N(join).In) == 0 {
		// all branches ended: the join is unreachable; give it one feeder
		t, _ := g.task(scope)
		f := g.b.Connect(fork, t, prog.Cond{K: "false"})
		_ = f
		g.b.Connect(t, join, prog.Cond{})
	}
	in := fork
	if d != "" {
		in = d
	}
	return in, join
}

// Random generates one random block-structured program.
func Random(name string, seed int64, f Features) *prog.Program {
	if f.MaxBranch < 2 {
		f.MaxBranch = 2
	}
	g := &G{b: prog.NewBuilder(name), r: rand.New(rand.NewSource(seed)), f: f, tags: map[string]bool{}}
	s := g.b.AddNode("start", "")
	in, out := g.block("", 0, f.MaxSize, false)
	g.b.Connect(s, in, prog.Cond{})
	if out != "" {
		e := g.b.AddNode("end", "")
		g.b.Connect(out, e, prog.Cond{})
	}
	for t := range g.tags {
		g.b.P.Tags = append(g.b.P.Tags, t)
	}
	sort.Strings(g.b.P.Tags)
	annotate(&g.b.P)
	return g.b.Done()
}

// annotate adds structural tags used by known-finding signatures.
func annotate(p *prog.Program) {
	has := func(t string) bool { return p.HasTag(t) }
	add := func(t string) {
		if !has(t) {
			p.Tags = append(p.Tags, t)
		}
	}
	for _, n := range p.Nodes {
		if n.Scope != "" {
			add("in-sub")
		}
		if n.Kind == "task" && len(n.Out) > 1 {
			add("task-multi-out")
		}
	}
}
