// Package gen produces program families: random block-structured programs
// (seeded) and enumerated shape tables for the gateway properties.
package gen

import (
	"fmt"
	"os"
	"math/rand"
	"sort"

	"verif/harness/internal/prog"
)

// Features switch block kinds on.
type Features struct {
	Xor, And, Or, Loop, CondFlow, Sub, NoDefault, EndInBranch bool
	MaxDepth, MaxSize, MaxBranch, SubWeight                   int
	// EmptyBranch: a branch of a gateway block may be a bare sequence flow from the fork to the join.
	// OlderVar: a gateway may read a variable written earlier on the way (by whichever token ran
	// the writing task), not only the result of a decision task directly in front of it; writes
	// that could be concurrent with the read are never chosen.
	// Throws: intermediate throw events (a signal nobody listens for) as pass-through nodes.
	EmptyBranch, OlderVar, Throws bool
	// NoSteer: do not steer around the scenarios of open findings (sentinel programs only)
	NoSteer bool
}

type G struct {
	b    *prog.Builder
	r    *rand.Rand
	f    Features
	nvar int
	tags map[string]bool
	ctx  []string // kinds of the enclosing blocks, outermost first
	// avail: three-valued variables whose writers all lie in the sequential past of the point
	// being generated (never concurrent with it)
	avail []string
	// wide: number of enclosing forks with three or more branches (parallel block, activity
	// with conditional flows)
	wide int
}

func (g *G) inCtx(k string) bool {
	for _, e := range g.ctx {
		if e == k {
			return true
		}
	}
	return false
}

// enter records that a block of kind k is being generated inside the current
// context and tags the program "k-in-e" for every enclosing block kind e.
func (g *G) enter(k string) func() {
	g.tag(k)
	for _, e := range g.ctx {
		g.tag(k + "-in-" + e)
	}
	g.ctx = append(g.ctx, k)
	return func() { g.ctx = g.ctx[:len(g.ctx)-1] }
}

func (g *G) tag(t string) { g.tags[t] = true }

func (g *G) freshVar(dom []int) string {
	g.nvar++
	v := fmt.Sprintf("v%d", g.nvar)
	g.b.P.Dom[v] = dom
	return v
}

// decision creates the variable a gateway reads: either an input variable
// (initial value, never written) or the result of a decision task placed
// directly before the gateway.  Returns the variable and the decision task
// ("" if input).
func (g *G) decision(scope string, dom []int) (string, string) {
	if g.f.OlderVar && len(g.avail) > 0 && g.r.Intn(3) == 0 {
		g.tag("older-var")
		return g.avail[g.r.Intn(len(g.avail))], ""
	}
	v := g.freshVar(dom)
	g.b.P.Vars0[v] = dom[g.r.Intn(len(dom))]
	if g.r.Intn(3) == 0 {
		return v, ""
	}
	t := g.b.AddNode("task", scope)
	g.b.N(t).Writes = []string{v}
	if len(dom) == 3 {
		g.avail = append(g.avail, v)
	}
	return v, t
}

func (g *G) task(scope string) (string, string) {
	// (not inside an embedded sub-process: the engine deliberately triggers the throw events of a
	// sub-process together with its start events -- "startAll ... triggering all start events and
	// throw events" -- which is outside what C12 states about inlined content)
	if g.f.Throws && scope == "" && g.r.Intn(6) == 0 {
		g.tag("throw")
		h := g.b.AddNode("throw", scope)
		g.b.N(h).Evs = []prog.EvDef{{K: "signal", Ref: "Z"}}
		t := g.b.AddNode("task", scope)
		g.b.Connect(h, t, prog.Cond{})
		return h, t
	}
	t := g.b.AddNode("task", scope)
	// a plain task may write a variable later gateways read
	if g.f.OlderVar && g.r.Intn(3) == 0 {
		v := g.freshVar([]int{0, 1, 2})
		g.b.P.Vars0[v] = g.r.Intn(3)
		g.b.N(t).Writes = []string{v}
		g.avail = append(g.avail, v)
	}
	return t, t
}

// branches runs gen for each of k concurrent (or alternative) branches: inside a branch only what
// was available before the block may be read; after the block everything written in any
// branch is in the past.
func (g *G) branch(f func()) []string {
	before := append([]string(nil), g.avail...)
	f()
	written := append([]string(nil), g.avail[len(before):]...)
	g.avail = before
	return written
}

// block builds a single-entry fragment; out == "" means every path of the
// fragment already ended in an end event.
func (g *G) block(scope string, depth, size int, noTerm bool) (in, out string) {
	if depth >= g.f.MaxDepth || size <= 1 {
		return g.task(scope)
	}
	var kinds []string
	kinds = append(kinds, "task", "seq", "seq")
	if g.f.Xor {
		kinds = append(kinds, "xor", "xor")
	}
	if g.f.And {
		kinds = append(kinds, "and", "and")
	}
	// open findings F6b / F6c (DESIGN section 8): an inclusive gateway inside a branch of another
	// inclusive fork, or inside a branch of a fork with three or more branches, waits for tokens
	// that merely share that outer fork.  Random programs steer around both scenarios (C05 keeps
	// sentinel shapes for them) so that the rest of each property stays checked on every seed.
	if g.f.Or && (g.f.NoSteer || (!g.inCtx("or") && g.wide == 0)) {
		kinds = append(kinds, "or", "or")
	}
	if g.f.Loop {
		kinds = append(kinds, "loop")
	}
	if g.f.CondFlow && !noTerm {
		kinds = append(kinds, "condflow")
	}
	if g.f.Sub {
		kinds = append(kinds, "sub")
		for i := 0; i < g.f.SubWeight; i++ {
			kinds = append(kinds, "sub")
		}
	}
	switch kinds[g.r.Intn(len(kinds))] {
	case "seq":
		i1, o1 := g.block(scope, depth+1, size/2, noTerm)
		if o1 == "" {
			return i1, ""
		}
		i2, o2 := g.block(scope, depth+1, size-size/2, noTerm)
		g.b.Connect(o1, i2, prog.Cond{})
		return i1, o2
	case "xor":
		return g.split("xor", scope, depth, size, noTerm)
	case "or":
		return g.split("or", scope, depth, size, noTerm)
	case "and":
		defer g.enter("and")()
		k := 2 + g.r.Intn(g.f.MaxBranch-1)
		if k >= 3 {
			g.wide++
			defer func() { g.wide-- }()
		}
		fork := g.b.AddNode("and", scope)
		join := g.b.AddNode("and", scope)
		var written []string
		for i := 0; i < k; i++ {
			if g.f.EmptyBranch && i > 0 && g.r.Intn(5) == 0 {
				g.b.Connect(fork, join, prog.Cond{})
				g.tag("and-emptybranch")
				continue
			}
			written = append(written, g.branch(func() {
				// a branch of a parallel block must reach the join (a token that
				// ended elsewhere would leave the join waiting for ever)
				bi, bo := g.block(scope, depth+1, size/k, true)
				g.b.Connect(fork, bi, prog.Cond{})
				g.b.Connect(bo, join, prog.Cond{})
			})...)
		}
		g.avail = append(g.avail, written...)
		return fork, join
	case "loop":
		defer g.enter("loop")()
		m := g.b.AddNode("xor", scope)
		bi, bo := g.block(scope, depth+1, size-2, noTerm)
		g.b.Connect(m, bi, prog.Cond{})
		if bo == "" {
			return m, ""
		}
		c := g.freshVar([]int{0, 1})
		g.b.P.Vars0[c] = 0
		d := g.b.AddNode("task", scope)
		g.b.N(d).Writes = []string{c}
		g.b.Connect(bo, d, prog.Cond{})
		x := g.b.AddNode("xor", scope)
		g.b.Connect(d, x, prog.Cond{})
		g.b.Connect(x, m, prog.Cond{K: "eq", V: c, C: 1})
		m2 := g.b.AddNode("xor", scope)
		df := g.b.Connect(x, m2, prog.Cond{})
		g.b.N(x).Default = df
		return m, m2
	case "condflow":
		defer g.enter("condflow")()
		v := g.freshVar([]int{0, 1, 2})
		g.b.P.Vars0[v] = g.r.Intn(3)
		t := g.b.AddNode("task", scope)
		g.b.N(t).Writes = []string{v}
		k := 2 + g.r.Intn(2)
		if k >= 3 {
			g.wide++
			defer func() { g.wide-- }()
		}
		for i := 0; i < k; i++ {
			g.branch(func() {
				bi, bo := g.block(scope, depth+1, size/k, false)
				g.b.Connect(t, bi, g.randCond(v, 3, i, k))
				if bo != "" {
					e := g.b.AddNode("end", scope)
					g.b.Connect(bo, e, prog.Cond{})
				}
			})
		}
		return t, ""
	case "sub":
		defer g.enter("sub")()
		p := g.b.AddNode("sub", scope)
		s := g.b.AddNode("start", p)
		bi, bo := g.block(p, depth+1, size-1, false)
		g.b.Connect(s, bi, prog.Cond{})
		if bo != "" {
			e := g.b.AddNode("end", p)
			g.b.Connect(bo, e, prog.Cond{})
		}
		return p, p
	}
	return g.task(scope)
}

func (g *G) randCond(v string, nvals, i, k int) prog.Cond {
	ops := []string{"eq", "ne", "ge", "lt", "le", "gt"}
	switch g.r.Intn(6) {
	case 0:
		return prog.Cond{K: "none"}
	case 1:
		return prog.Cond{K: ops[g.r.Intn(len(ops))], V: v, C: g.r.Intn(nvals)}
	}
	return prog.Cond{K: "eq", V: v, C: i % nvals}
}

// split builds an exclusive or inclusive split/merge block.
func (g *G) split(kind, scope string, depth, size int, noTerm bool) (string, string) {
	defer g.enter(kind)()
	k := 2 + g.r.Intn(g.f.MaxBranch-1)
	dom := []int{0, 1, 2}
	v, d := g.decision(scope, dom)
	fork := g.b.AddNode(kind, scope)
	join := g.b.AddNode(kind, scope)
	if d != "" {
		g.b.Connect(d, fork, prog.Cond{})
	}
	hasDefault := !(g.f.NoDefault && g.r.Intn(4) == 0)
	defPos := g.r.Intn(k)
	var written []string
	for i := 0; i < k; i++ {
		var bi, bo string
		before := append([]string(nil), g.avail...)
		if g.f.EmptyBranch && g.r.Intn(5) == 0 {
			// a bare sequence flow from the fork to the join
			bi, bo = join, ""
			g.tag(kind + "-emptybranch")
		} else if g.f.EndInBranch && !noTerm && g.r.Intn(5) == 0 {
			bi, _ = g.task(scope)
			e := g.b.AddNode("end", scope)
			g.b.Connect(bi, e, prog.Cond{})
			bo = ""
			g.tag(kind + "-endbranch")
		} else {
			bi, bo = g.block(scope, depth+1, size/k, noTerm)
		}
		var c prog.Cond
		if hasDefault && i == defPos {
			c = prog.Cond{}
			// a default flow may carry a condition too; it is ignored
			if g.r.Intn(4) == 0 {
				c = prog.Cond{K: "false"}
			}
		} else {
			c = g.randCond(v, 3, i, k)
			if c.K == "none" {
				c = prog.Cond{K: "ge", V: v, C: 1}
			}
		}
		f := g.b.Connect(fork, bi, c)
		if hasDefault && i == defPos {
			g.b.N(fork).Default = f
		}
		if bo != "" {
			g.b.Connect(bo, join, prog.Cond{})
		}
		written = append(written, g.avail[len(before):]...)
		g.avail = before
	}
	g.avail = append(g.avail, written...)
	if !hasDefault {
		g.tag(kind + "-nodefault")
	}
	if len(g.b.N(join).In) == 0 {
		// all branches ended: the join is unreachable; give it one feeder
		t, _ := g.task(scope)
		f := g.b.Connect(fork, t, prog.Cond{K: "false"})
		_ = f
		g.b.Connect(t, join, prog.Cond{})
	}
	in := fork
	if d != "" {
		in = d
	}
	return in, join
}

// Random generates one random block-structured program.
func Random(name string, seed int64, f Features) *prog.Program {
	if f.MaxBranch < 2 {
		f.MaxBranch = 2
	}
	if os.Getenv("VERIF_NOSTEER") != "" { // experiments only
		f.NoSteer = true
	}
	g := &G{b: prog.NewBuilder(name), r: rand.New(rand.NewSource(seed)), f: f, tags: map[string]bool{}}
	s := g.b.AddNode("start", "")
	in, out := g.block("", 0, f.MaxSize, false)
	g.b.Connect(s, in, prog.Cond{})
	if out != "" {
		e := g.b.AddNode("end", "")
		g.b.Connect(out, e, prog.Cond{})
	}
	for t := range g.tags {
		g.b.P.Tags = append(g.b.P.Tags, t)
	}
	sort.Strings(g.b.P.Tags)
	annotate(&g.b.P)
	return g.b.Done()
}

// annotate adds structural tags used by known-finding signatures.
func annotate(p *prog.Program) {
	has := func(t string) bool { return p.HasTag(t) }
	add := func(t string) {
		if !has(t) {
			p.Tags = append(p.Tags, t)
		}
	}
	for _, n := range p.Nodes {
		if n.Scope != "" {
			add("in-sub")
		}
		if n.Kind == "task" && len(n.Out) > 1 {
			add("task-multi-out")
		}
	}
}
