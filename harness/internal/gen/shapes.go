package gen

import (
	"fmt"

	"verif/harness/internal/prog"
)

// ParallelNM: start -> fork(1 x N) -> u_1..u_N -> G (N x M) -> d_1..d_M -> J (M x 1)
// -> [loop decision -> XOR back to fork | end].  rounds > 1 adds the loop so
// that G is re-entered; the environment decides after each round.
func ParallelNM(n, m int, loop bool) *prog.Program {
	b := prog.NewBuilder(fmt.Sprintf("par_%dx%d_loop%v", n, m, loop))
	s := b.AddNode("start", "")
	entry := s
	var merge string
	if loop {
		merge = b.AddNode("xor", "")
		b.Connect(s, merge, prog.Cond{})
		entry = merge
	}
	fork := b.AddNode("and", "")
	b.Connect(entry, fork, prog.Cond{})
	g := b.AddNode("and", "")
	for i := 0; i < n; i++ {
		u := b.AddNode("task", "")
		b.Connect(fork, u, prog.Cond{})
		b.Connect(u, g, prog.Cond{})
	}
	j := b.AddNode("and", "")
	for k := 0; k < m; k++ {
		d := b.AddNode("task", "")
		b.Connect(g, d, prog.Cond{})
		b.Connect(d, j, prog.Cond{})
	}
	e := b.AddNode("end", "")
	if loop {
		dt := b.AddNode("task", "")
		b.N(dt).Writes = []string{"again"}
		b.P.Dom["again"] = []int{0, 1}
		b.P.Vars0["again"] = 0
		b.Connect(j, dt, prog.Cond{})
		x := b.AddNode("xor", "")
		b.Connect(dt, x, prog.Cond{})
		b.Connect(x, merge, prog.Cond{K: "eq", V: "again", C: 1})
		df := b.Connect(x, e, prog.Cond{})
		b.N(x).Default = df
		b.P.Tags = append(b.P.Tags, "loop")
	} else {
		b.Connect(j, e, prog.Cond{})
	}
	b.P.Tags = append(b.P.Tags, "and", fmt.Sprintf("n%d", n), fmt.Sprintf("m%d", m))
	return b.Done()
}

// GatewayTable builds the decision-table program of an exclusive ("xor") or
// inclusive ("or") gateway with k conditional flows and the default flow at
// list position dpos (-1: no default).  Flow i is taken iff c_i = 1; one
// decision task writes all c_i, so TLC enumerates every truth assignment.
// tokens (1..3) tokens are sent to the gateway concurrently through a
// parallel fork.  Every branch leads to its own task; for "xor" each branch
// then ends in its own end event, for "or" the branches are joined by an
// inclusive join unless endBranch >= 0 names a branch that ends before it.
func GatewayTable(kind string, k, dpos, tokens, endBranch int) *prog.Program {
	return GatewayTableLoop(kind, k, dpos, tokens, endBranch, false)
}

// MergedArrival makes GatewayTable* route the concurrent tokens through one
// merging exclusive gateway so that they arrive over a single incoming flow.
var MergedArrival bool

// BurstArrival (with MergedArrival) sends the concurrent tokens to the gateway
// without a task in between, so that they arrive at the same time.
var BurstArrival bool

// DirectBranch (>= 0, inclusive gateways only): the branch at that position has no task on it --
// its sequence flow runs straight from the fork to the join.
var DirectBranch = -1

// GatewayTableLoop is GatewayTable with the whole block placed in a loop
// (loop = true) so that the gateways are re-entered: after the block a
// decision task writes `again`.
func GatewayTableLoop(kind string, k, dpos, tokens, endBranch int, loop bool) *prog.Program {
	b := prog.NewBuilder(fmt.Sprintf("%s_k%d_d%d_t%d_e%d_loop%v_m%v", kind, k, dpos, tokens, endBranch, loop, MergedArrival) + map[bool]string{true: "_burst", false: ""}[BurstArrival] + map[bool]string{true: fmt.Sprintf("_direct%d", DirectBranch), false: ""}[DirectBranch >= 0])
	s := b.AddNode("start", "")
	dt := b.AddNode("task", "")
	var merge string
	if loop {
		merge = b.AddNode("xor", "")
		b.Connect(s, merge, prog.Cond{})
		b.Connect(merge, dt, prog.Cond{})
	} else {
		b.Connect(s, dt, prog.Cond{})
	}
	for i := 0; i < k; i++ {
		v := fmt.Sprintf("c%d", i)
		b.N(dt).Writes = append(b.N(dt).Writes, v)
		b.P.Dom[v] = []int{0, 1}
		b.P.Vars0[v] = 0
	}
	gw := b.AddNode(kind, "")
	if tokens > 1 {
		fork := b.AddNode("and", "")
		b.Connect(dt, fork, prog.Cond{})
		into := gw
		if MergedArrival {
			// all tokens reach the gateway over ONE incoming flow
			into = b.AddNode("xor", "")
			b.Connect(into, gw, prog.Cond{})
			b.P.Tags = append(b.P.Tags, "merged-arrival")
		}
		for i := 0; i < tokens; i++ {
			if BurstArrival {
				// no task in between: all tokens reach the gateway at once
				b.Connect(fork, into, prog.Cond{})
				continue
			}
			// a pass-through task per token so that arrival order is driven by the environment
			u := b.AddNode("task", "")
			b.Connect(fork, u, prog.Cond{})
			b.Connect(u, into, prog.Cond{})
		}
		if BurstArrival {
			b.P.Tags = append(b.P.Tags, "burst")
		}
	} else {
		b.Connect(dt, gw, prog.Cond{})
	}
	total := k
	if dpos >= 0 {
		total = k + 1
	}
	var join string
	if kind == "or" {
		join = b.AddNode("or", "")
	} else if loop {
		join = b.AddNode("xor", "")
	}
	ci := 0
	for pos := 0; pos < total; pos++ {
		if pos == DirectBranch && join != "" && pos != endBranch {
			if pos == dpos {
				b.N(gw).Default = b.Connect(gw, join, prog.Cond{})
			} else {
				b.Connect(gw, join, prog.Cond{K: "eq", V: fmt.Sprintf("c%d", ci), C: 1})
				ci++
			}
			b.P.Tags = append(b.P.Tags, "direct-branch")
			continue
		}
		t := b.AddNode("task", "")
		var f string
		if pos == dpos {
			f = b.Connect(gw, t, prog.Cond{})
			b.N(gw).Default = f
		} else {
			f = b.Connect(gw, t, prog.Cond{K: "eq", V: fmt.Sprintf("c%d", ci), C: 1})
			ci++
		}
		if join != "" && pos != endBranch {
			b.Connect(t, join, prog.Cond{})
		} else {
			e := b.AddNode("end", "")
			b.Connect(t, e, prog.Cond{})
		}
	}
	if join != "" {
		if len(b.N(join).In) == 0 {
			// unreachable join: give it an incoming flow that is never taken
			t := b.AddNode("task", "")
			b.Connect(gw, t, prog.Cond{K: "false"})
			b.Connect(t, join, prog.Cond{})
		}
		after := b.AddNode("task", "")
		b.Connect(join, after, prog.Cond{})
		e := b.AddNode("end", "")
		if loop {
			b.N(after).Writes = []string{"again"}
			b.P.Dom["again"] = []int{0, 1}
			b.P.Vars0["again"] = 0
			x := b.AddNode("xor", "")
			b.Connect(after, x, prog.Cond{})
			b.Connect(x, merge, prog.Cond{K: "eq", V: "again", C: 1})
			df := b.Connect(x, e, prog.Cond{})
			b.N(x).Default = df
			b.P.Tags = append(b.P.Tags, "loop", kind+"-in-loop")
		} else {
			b.Connect(after, e, prog.Cond{})
		}
	}
	b.P.Tags = append(b.P.Tags, kind, fmt.Sprintf("k%d", k), fmt.Sprintf("tokens%d", tokens))
	if dpos < 0 {
		b.P.Tags = append(b.P.Tags, kind+"-nodefault")
	}
	if endBranch >= 0 {
		b.P.Tags = append(b.P.Tags, kind+"-endbranch")
	}
	return b.Done()
}

// wrapSub nests `inner` (a builder callback producing a single-entry/single-exit
// fragment inside scope sc) in d levels of sub-process; returns the outermost
// sub node.
func wrapSub(b *prog.Builder, scope string, d int, inner func(sc string) (string, string)) string {
	p := b.AddNode("sub", scope)
	s := b.AddNode("start", p)
	var in, out string
	if d <= 1 {
		in, out = inner(p)
	} else {
		q := wrapSub(b, p, d-1, inner)
		in, out = q, q
	}
	e := b.AddNode("end", p)
	b.Connect(s, in, prog.Cond{})
	b.Connect(out, e, prog.Cond{})
	return p
}

// OtherWriterShapes: a token evaluates a condition, ANOTHER token then writes the variable a
// later condition of the first token reads (the write is ordered before the read by the
// process structure: a parallel join, or the end of an embedded sub-process the first token
// waits in).  kind: "and" | "sub".
func OtherWriterShapes(kind string) []*prog.Program {
	var out []*prog.Program
	for _, early := range []bool{true, false} {
		b := prog.NewBuilder(fmt.Sprintf("other_writer_%s_early%v", kind, early))
		s := b.AddNode("start", "")
		t0 := b.AddNode("task", "")
		b.N(t0).Writes = []string{"a"}
		b.P.Dom["a"] = []int{0, 1}
		b.P.Vars0["a"] = 0
		b.P.Dom["v"] = []int{0, 1, 2}
		b.P.Vars0["v"] = 0
		b.Connect(s, t0, prog.Cond{})
		prev := t0
		if early {
			// a first decision on another variable: the token has evaluated conditions before
			g1 := b.AddNode("xor", "")
			m1 := b.AddNode("xor", "")
			u := b.AddNode("task", "")
			b.Connect(t0, g1, prog.Cond{})
			b.Connect(g1, u, prog.Cond{K: "eq", V: "a", C: 1})
			b.N(g1).Default = b.Connect(g1, m1, prog.Cond{})
			b.Connect(u, m1, prog.Cond{})
			prev = m1
		}
		var after string
		if kind == "sub" {
			p := wrapSub(b, "", 1, func(sc string) (string, string) {
				d := b.AddNode("task", sc)
				b.N(d).Writes = []string{"v"}
				return d, d
			})
			b.Connect(prev, p, prog.Cond{})
			after = p
			b.P.Tags = append(b.P.Tags, "sub")
		} else {
			f := b.AddNode("and", "")
			j := b.AddNode("and", "")
			d := b.AddNode("task", "")
			b.N(d).Writes = []string{"v"}
			w := b.AddNode("task", "")
			b.Connect(prev, f, prog.Cond{})
			b.Connect(f, w, prog.Cond{})
			b.Connect(f, d, prog.Cond{})
			b.Connect(w, j, prog.Cond{})
			b.Connect(d, j, prog.Cond{})
			after = j
			b.P.Tags = append(b.P.Tags, "and")
		}
		g2 := b.AddNode("xor", "")
		b.Connect(after, g2, prog.Cond{})
		for c := 1; c <= 2; c++ {
			x := b.AddNode("task", "")
			e := b.AddNode("end", "")
			b.Connect(g2, x, prog.Cond{K: "eq", V: "v", C: c})
			b.Connect(x, e, prog.Cond{})
		}
		y := b.AddNode("task", "")
		e := b.AddNode("end", "")
		b.N(g2).Default = b.Connect(g2, y, prog.Cond{})
		b.Connect(y, e, prog.Cond{})
		b.P.Tags = append(b.P.Tags, "xor", "other-writer")
		out = append(out, b.Done())
	}
	return out
}

// SubShapes: the sub-process corpus of C12 beyond random wrapping.
func SubShapes() []*prog.Program {
	var out []*prog.Program
	oneTask := func(b *prog.Builder) func(string) (string, string) {
		return func(sc string) (string, string) { t := b.AddNode("task", sc); return t, t }
	}
	parBlock := func(b *prog.Builder) func(string) (string, string) {
		return func(sc string) (string, string) {
			f := b.AddNode("and", sc)
			j := b.AddNode("and", sc)
			for i := 0; i < 2; i++ {
				t := b.AddNode("task", sc)
				b.Connect(f, t, prog.Cond{})
				b.Connect(t, j, prog.Cond{})
			}
			return f, j
		}
	}
	for d := 1; d <= 3; d++ {
		for _, par := range []bool{false, true} {
			// plain nesting
			b := prog.NewBuilder(fmt.Sprintf("sub_depth%d_par%v", d, par))
			s := b.AddNode("start", "")
			inner := oneTask(b)
			if par {
				inner = parBlock(b)
			}
			p := wrapSub(b, "", d, inner)
			t := b.AddNode("task", "")
			e := b.AddNode("end", "")
			b.Connect(s, p, prog.Cond{})
			b.Connect(p, t, prog.Cond{})
			b.Connect(t, e, prog.Cond{})
			b.P.Tags = append(b.P.Tags, "sub", fmt.Sprintf("depth%d", d))
			out = append(out, b.Done())

			// re-entered in a loop
			b = prog.NewBuilder(fmt.Sprintf("sub_loop_depth%d_par%v", d, par))
			s = b.AddNode("start", "")
			m := b.AddNode("xor", "")
			inner = oneTask(b)
			if par {
				inner = parBlock(b)
			}
			p = wrapSub(b, "", d, inner)
			dt := b.AddNode("task", "")
			b.N(dt).Writes = []string{"again"}
			b.P.Dom["again"] = []int{0, 1}
			b.P.Vars0["again"] = 0
			x := b.AddNode("xor", "")
			e = b.AddNode("end", "")
			b.Connect(s, m, prog.Cond{})
			b.Connect(m, p, prog.Cond{})
			b.Connect(p, dt, prog.Cond{})
			b.Connect(dt, x, prog.Cond{})
			b.Connect(x, m, prog.Cond{K: "eq", V: "again", C: 1})
			df := b.Connect(x, e, prog.Cond{})
			b.N(x).Default = df
			b.P.Tags = append(b.P.Tags, "sub", "loop", "sub-in-loop", fmt.Sprintf("depth%d", d))
			out = append(out, b.Done())
		}
		// in parallel branches
		for k := 2; k <= 3; k++ {
			b := prog.NewBuilder(fmt.Sprintf("sub_par%d_depth%d", k, d))
			s := b.AddNode("start", "")
			f := b.AddNode("and", "")
			j := b.AddNode("and", "")
			b.Connect(s, f, prog.Cond{})
			for i := 0; i < k; i++ {
				p := wrapSub(b, "", d, oneTask(b))
				b.Connect(f, p, prog.Cond{})
				b.Connect(p, j, prog.Cond{})
			}
			e := b.AddNode("end", "")
			b.Connect(j, e, prog.Cond{})
			b.P.Tags = append(b.P.Tags, "sub", "and", "sub-in-and", fmt.Sprintf("depth%d", d))
			out = append(out, b.Done())
		}
	}
	// two tokens inside the same sub-process at the same time
	b := prog.NewBuilder("sub_concurrent_entry")
	s := b.AddNode("start", "")
	f := b.AddNode("and", "")
	m := b.AddNode("xor", "")
	b.Connect(s, f, prog.Cond{})
	for i := 0; i < 2; i++ {
		t := b.AddNode("task", "")
		b.Connect(f, t, prog.Cond{})
		b.Connect(t, m, prog.Cond{})
	}
	p := wrapSub(b, "", 1, oneTask(b))
	b.Connect(m, p, prog.Cond{})
	t := b.AddNode("task", "")
	e := b.AddNode("end", "")
	b.Connect(p, t, prog.Cond{})
	b.Connect(t, e, prog.Cond{})
	b.P.Tags = append(b.P.Tags, "sub", "sub-concurrent-entry")
	out = append(out, b.Done())
	return out
}

// AnswerShapes: the C08 corpus.  Task t1 accepts error answers (retries > 0
// marks it for the export), writes a decision variable v and an inert result r
// that no condition reads.
func AnswerShapes() []*prog.Program {
	var out []*prog.Program
	{
		b := prog.NewBuilder("ans_xor")
		s := b.AddNode("start", "")
		t1 := b.AddNode("task", "")
		b.N(t1).Writes = []string{"v", "r"}
		b.N(t1).Retries = 1
		b.P.Dom["v"] = []int{0, 1}
		b.P.Dom["r"] = []int{1, 2, 3}
		b.P.Vars0["v"] = 0
		b.P.Vars0["r"] = 0
		x := b.AddNode("xor", "")
		t2 := b.AddNode("task", "")
		t3 := b.AddNode("task", "")
		e1 := b.AddNode("end", "")
		e2 := b.AddNode("end", "")
		b.Connect(s, t1, prog.Cond{})
		b.Connect(t1, x, prog.Cond{})
		b.Connect(x, t2, prog.Cond{K: "eq", V: "v", C: 1})
		d := b.Connect(x, t3, prog.Cond{})
		b.N(x).Default = d
		b.Connect(t2, e1, prog.Cond{})
		b.Connect(t3, e2, prog.Cond{})
		b.P.Tags = append(b.P.Tags, "answers")
		out = append(out, b.Done())
	}
	{
		b := prog.NewBuilder("ans_par")
		s := b.AddNode("start", "")
		f := b.AddNode("and", "")
		j := b.AddNode("and", "")
		t1 := b.AddNode("task", "")
		b.N(t1).Writes = []string{"r"}
		b.N(t1).Retries = 1
		b.P.Dom["r"] = []int{1, 2}
		b.P.Vars0["r"] = 0
		t4 := b.AddNode("task", "")
		t5 := b.AddNode("task", "")
		e := b.AddNode("end", "")
		b.Connect(s, f, prog.Cond{})
		b.Connect(f, t1, prog.Cond{})
		b.Connect(f, t4, prog.Cond{})
		b.Connect(t1, j, prog.Cond{})
		b.Connect(t4, j, prog.Cond{})
		b.Connect(j, t5, prog.Cond{})
		b.Connect(t5, e, prog.Cond{})
		b.P.Tags = append(b.P.Tags, "answers", "and")
		out = append(out, b.Done())
	}
	{
		// conditional flows leaving the answered task read its result
		b := prog.NewBuilder("ans_condflow")
		s := b.AddNode("start", "")
		t1 := b.AddNode("task", "")
		b.N(t1).Writes = []string{"v"}
		b.N(t1).Retries = 1
		b.P.Dom["v"] = []int{0, 1, 2}
		b.P.Vars0["v"] = 0
		b.Connect(s, t1, prog.Cond{})
		for i := 0; i < 2; i++ {
			t := b.AddNode("task", "")
			e := b.AddNode("end", "")
			b.Connect(t1, t, prog.Cond{K: "ge", V: "v", C: i + 1})
			b.Connect(t, e, prog.Cond{})
		}
		b.P.Tags = append(b.P.Tags, "answers", "condflow")
		out = append(out, b.Done())
	}
	return out
}

// CompletionShapes: the C02 corpus: 1..3 start events, instant completion,
// parallel tokens.
func CompletionShapes() []*prog.Program {
	var out []*prog.Program
	for k := 1; k <= 3; k++ {
		b := prog.NewBuilder(fmt.Sprintf("starts%d", k))
		for i := 0; i < k; i++ {
			s := b.AddNode("start", "")
			t := b.AddNode("task", "")
			e := b.AddNode("end", "")
			b.Connect(s, t, prog.Cond{})
			b.Connect(t, e, prog.Cond{})
		}
		b.P.Tags = append(b.P.Tags, fmt.Sprintf("starts%d", k))
		if k > 1 {
			b.P.Tags = append(b.P.Tags, "multi-start")
		}
		out = append(out, b.Done())
	}
	{
		b := prog.NewBuilder("instant")
		s := b.AddNode("start", "")
		e := b.AddNode("end", "")
		b.Connect(s, e, prog.Cond{})
		b.P.Tags = append(b.P.Tags, "instant")
		out = append(out, b.Done())
	}
	{
		b := prog.NewBuilder("par2")
		s := b.AddNode("start", "")
		f := b.AddNode("and", "")
		j := b.AddNode("and", "")
		e := b.AddNode("end", "")
		b.Connect(s, f, prog.Cond{})
		for i := 0; i < 2; i++ {
			t := b.AddNode("task", "")
			b.Connect(f, t, prog.Cond{})
			b.Connect(t, j, prog.Cond{})
		}
		b.Connect(j, e, prog.Cond{})
		b.P.Tags = append(b.P.Tags, "and")
		out = append(out, b.Done())
	}
	{
		b := prog.NewBuilder("stuck_xor")
		s := b.AddNode("start", "")
		t := b.AddNode("task", "")
		x := b.AddNode("xor", "")
		t2 := b.AddNode("task", "")
		e := b.AddNode("end", "")
		b.Connect(s, t, prog.Cond{})
		b.Connect(t, x, prog.Cond{})
		b.Connect(x, t2, prog.Cond{K: "false"})
		b.Connect(t2, e, prog.Cond{})
		b.P.Tags = append(b.P.Tags, "xor-nodefault")
		out = append(out, b.Done())
	}
	out = append(out, ForkAtTheEdgeShapes()...)
	return out
}

// StartAtTheEdgeShapes: several start events, the flow of the first one is over before the next
// start event is triggered (when StartAll is slow between two start events): "every start event
// has fired" must not be concluded from the ones triggered so far.
func StartAtTheEdgeShapes() []*prog.Program {
	var out []*prog.Program
	for k := 2; k <= 3; k++ {
		b := prog.NewBuilder(fmt.Sprintf("starts%d_first_instant", k))
		s0 := b.AddNode("start", "")
		e0 := b.AddNode("end", "")
		b.Connect(s0, e0, prog.Cond{})
		for i := 1; i < k; i++ {
			s := b.AddNode("start", "")
			t := b.AddNode("task", "")
			e := b.AddNode("end", "")
			b.Connect(s, t, prog.Cond{})
			b.Connect(t, e, prog.Cond{})
		}
		b.P.Tags = append(b.P.Tags, "multi-start", fmt.Sprintf("starts%d", k), "start-at-the-edge")
		out = append(out, b.Done())
	}
	return out
}

// ForkAtTheEdgeShapes: the token that forks is consumed at the very moment the flows it forked
// come into being -- the instant at which "no token remains" must not be concluded.
func ForkAtTheEdgeShapes() []*prog.Program {
	var out []*prog.Program
	{
		// conditional flows leaving an activity, the first one false: the activity's own token is
		// consumed, the other flow is taken by a new one
		b := prog.NewBuilder("condflow_consumed")
		s := b.AddNode("start", "")
		t := b.AddNode("task", "")
		t1 := b.AddNode("task", "")
		e1 := b.AddNode("end", "")
		t2 := b.AddNode("task", "")
		e2 := b.AddNode("end", "")
		b.Connect(s, t, prog.Cond{})
		b.Connect(t, t1, prog.Cond{K: "false"})
		b.Connect(t1, e1, prog.Cond{})
		b.Connect(t, t2, prog.Cond{})
		b.Connect(t2, e2, prog.Cond{})
		b.P.Tags = append(b.P.Tags, "condflow", "fork-at-the-edge")
		out = append(out, b.Done())
	}
	{
		// a parallel fork whose first branch ends at once while the others have work to do
		b := prog.NewBuilder("fork_first_ends")
		s := b.AddNode("start", "")
		t := b.AddNode("task", "")
		f := b.AddNode("and", "")
		e0 := b.AddNode("end", "")
		b.Connect(s, t, prog.Cond{})
		b.Connect(t, f, prog.Cond{})
		b.Connect(f, e0, prog.Cond{})
		for i := 0; i < 2; i++ {
			u := b.AddNode("task", "")
			e := b.AddNode("end", "")
			b.Connect(f, u, prog.Cond{})
			b.Connect(u, e, prog.Cond{})
		}
		b.P.Tags = append(b.P.Tags, "and", "fork-at-the-edge")
		out = append(out, b.Done())
	}
	return out
}

func sig(ref string) []prog.EvDef { return []prog.EvDef{{K: "signal", Ref: ref}} }

// OrWithInnerFork: an inclusive fork / join pair one of whose branches forks again -- through a
// parallel block (inner = "and") or through a task with two unconditional outgoing flows that
// meet again in an exclusive merge (inner = "task"): the tokens created inside the branch belong
// to the activation of the inclusive fork, the join waits for them.
func OrWithInnerFork(inner string, dflt bool) *prog.Program {
	b := prog.NewBuilder(fmt.Sprintf("or_inner_%s_d%v", inner, dflt))
	s := b.AddNode("start", "")
	dt := b.AddNode("task", "")
	for i := 0; i < 2; i++ {
		v := fmt.Sprintf("c%d", i)
		b.N(dt).Writes = append(b.N(dt).Writes, v)
		b.P.Dom[v] = []int{0, 1}
		b.P.Vars0[v] = 0
	}
	o := b.AddNode("or", "")
	j := b.AddNode("or", "")
	b.Connect(s, dt, prog.Cond{})
	b.Connect(dt, o, prog.Cond{})
	// branch 0: forks again
	var in0, out0 string
	if inner == "and" {
		f := b.AddNode("and", "")
		g := b.AddNode("and", "")
		for i := 0; i < 2; i++ {
			t := b.AddNode("task", "")
			b.Connect(f, t, prog.Cond{})
			b.Connect(t, g, prog.Cond{})
		}
		in0, out0 = f, g
	} else if inner == "task2join" {
		// the activity's two outgoing flows both run (through a task each) to the inclusive join
		// itself: the join waits for both of them
		t := b.AddNode("task", "")
		in0 = t
		for i := 0; i < 2; i++ {
			u := b.AddNode("task", "")
			b.Connect(t, u, prog.Cond{})
			b.Connect(u, j, prog.Cond{})
		}
	} else {
		t := b.AddNode("task", "")
		g := b.AddNode("and", "")
		if inner == "taskfirstfalse" {
			// the activity's own (first) flow is not taken: its token is consumed, both flows that
			// go on are new ones
			dead := b.AddNode("task", "")
			de := b.AddNode("end", "")
			b.Connect(t, dead, prog.Cond{K: "false"})
			b.Connect(dead, de, prog.Cond{})
			b.P.Tags = append(b.P.Tags, "fork-parent-consumed", "sentinel")
		}
		for i := 0; i < 2; i++ {
			u := b.AddNode("task", "")
			b.Connect(t, u, prog.Cond{})
			b.Connect(u, g, prog.Cond{})
		}
		in0, out0 = t, g
	}
	b.Connect(o, in0, prog.Cond{K: "eq", V: "c0", C: 1})
	if out0 != "" {
		b.Connect(out0, j, prog.Cond{})
	}
	t1 := b.AddNode("task", "")
	b.Connect(o, t1, prog.Cond{K: "eq", V: "c1", C: 1})
	b.Connect(t1, j, prog.Cond{})
	if dflt {
		t2 := b.AddNode("task", "")
		b.N(o).Default = b.Connect(o, t2, prog.Cond{})
		b.Connect(t2, j, prog.Cond{})
	}
	after := b.AddNode("task", "")
	e := b.AddNode("end", "")
	b.Connect(j, after, prog.Cond{})
	b.Connect(after, e, prog.Cond{})
	b.P.Tags = append(b.P.Tags, "or", "fork-in-or", inner+"-in-or")
	if !dflt {
		b.P.Tags = append(b.P.Tags, "or-nodefault")
	}
	return b.Done()
}

// orBlock: an inclusive fork / join pair with two conditional branches (tasks) on variable v
// (values 1 and 2 activate one branch each, 3 both via ge), default to the first.
func orBlock(b *prog.Builder, v string) (string, string) {
	o := b.AddNode("or", "")
	j := b.AddNode("or", "")
	t1 := b.AddNode("task", "")
	t2 := b.AddNode("task", "")
	b.N(o).Default = b.Connect(o, t1, prog.Cond{})
	b.Connect(o, t2, prog.Cond{K: "ge", V: v, C: 1})
	b.Connect(t1, j, prog.Cond{})
	b.Connect(t2, j, prog.Cond{})
	return o, j
}

// OpenFindingSentinels: the scenarios of the open findings F6b and F6c, kept in the C05 corpus
// so that they stay visible: an inclusive block inside a branch of another inclusive fork, and
// inclusive blocks inside the second and third branch of a three-way parallel fork.
func OpenFindingSentinels() []*prog.Program {
	var out []*prog.Program
	{
		b := prog.NewBuilder("or_in_or")
		s := b.AddNode("start", "")
		dt := b.AddNode("task", "")
		b.N(dt).Writes = []string{"a", "v"}
		b.P.Dom["a"], b.P.Dom["v"] = []int{0, 1}, []int{0, 1}
		b.P.Vars0["a"], b.P.Vars0["v"] = 0, 0
		o := b.AddNode("or", "")
		j := b.AddNode("or", "")
		b.Connect(s, dt, prog.Cond{})
		b.Connect(dt, o, prog.Cond{})
		i1, o1 := orBlock(b, "v")
		b.N(o).Default = b.Connect(o, i1, prog.Cond{})
		b.Connect(o1, j, prog.Cond{})
		t := b.AddNode("task", "")
		b.Connect(o, t, prog.Cond{K: "eq", V: "a", C: 1})
		b.Connect(t, j, prog.Cond{})
		after := b.AddNode("task", "")
		e := b.AddNode("end", "")
		b.Connect(j, after, prog.Cond{})
		b.Connect(after, e, prog.Cond{})
		b.P.Tags = append(b.P.Tags, "or", "or-in-or", "sentinel")
		out = append(out, b.Done())
	}
	{
		b := prog.NewBuilder("or_in_wide_and")
		s := b.AddNode("start", "")
		dt := b.AddNode("task", "")
		b.N(dt).Writes = []string{"v"}
		b.P.Dom["v"] = []int{0, 1}
		b.P.Vars0["v"] = 0
		f := b.AddNode("and", "")
		g := b.AddNode("and", "")
		b.Connect(s, dt, prog.Cond{})
		b.Connect(dt, f, prog.Cond{})
		t := b.AddNode("task", "")
		b.Connect(f, t, prog.Cond{})
		b.Connect(t, g, prog.Cond{})
		for i := 0; i < 2; i++ {
			i1, o1 := orBlock(b, "v")
			b.Connect(f, i1, prog.Cond{})
			b.Connect(o1, g, prog.Cond{})
		}
		after := b.AddNode("task", "")
		e := b.AddNode("end", "")
		b.Connect(g, after, prog.Cond{})
		b.Connect(after, e, prog.Cond{})
		b.P.Tags = append(b.P.Tags, "or", "and", "or-in-wide-fork", "sentinel")
		out = append(out, b.Done())
	}
	return out
}

// OrTightLoop: an inclusive fork / join pair (k branches, all taken) in a loop with a single task
// between the join and the way back: the join is reached again while the gateways' flow
// trackers may still be digesting the previous activation.
func OrTightLoop(k int) *prog.Program {
	b := prog.NewBuilder(fmt.Sprintf("or_tight_loop_%d", k))
	s := b.AddNode("start", "")
	m := b.AddNode("xor", "")
	o := b.AddNode("or", "")
	j := b.AddNode("or", "")
	b.Connect(s, m, prog.Cond{})
	b.Connect(m, o, prog.Cond{})
	for i := 0; i < k; i++ {
		t := b.AddNode("task", "")
		b.Connect(o, t, prog.Cond{K: "true"})
		b.Connect(t, j, prog.Cond{})
	}
	c := b.AddNode("task", "")
	b.N(c).Writes = []string{"again"}
	b.P.Dom["again"] = []int{0, 1}
	b.P.Vars0["again"] = 0
	x := b.AddNode("xor", "")
	e := b.AddNode("end", "")
	b.Connect(j, c, prog.Cond{})
	b.Connect(c, x, prog.Cond{})
	b.Connect(x, m, prog.Cond{K: "eq", V: "again", C: 1})
	b.N(x).Default = b.Connect(x, e, prog.Cond{})
	b.P.Tags = append(b.P.Tags, "or", "loop", "or-in-loop", "or-nodefault")
	return b.Done()
}

// ThrowShapes: intermediate throw events next to catch events -- one reached late (behind a
// task), one on a branch never taken: events handed to the instance meanwhile must not wait for
// a node no token has reached.
func ThrowShapes() []*prog.Program {
	var out []*prog.Program
	{
		b := prog.NewBuilder("throw_late")
		s := b.AddNode("start", "")
		t := b.AddNode("task", "")
		h := b.AddNode("throw", "")
		b.N(h).Evs = sig("Z")
		c := b.AddNode("catch", "")
		b.N(c).Evs = sig("A")
		u := b.AddNode("task", "")
		e := b.AddNode("end", "")
		b.Connect(s, t, prog.Cond{})
		b.Connect(t, h, prog.Cond{})
		b.Connect(h, c, prog.Cond{})
		b.Connect(c, u, prog.Cond{})
		b.Connect(u, e, prog.Cond{})
		b.P.Tags = append(b.P.Tags, "catch", "throw", "throw-late")
		out = append(out, b.Done())
	}
	{
		b := prog.NewBuilder("throw_untaken")
		s := b.AddNode("start", "")
		x := b.AddNode("xor", "")
		h := b.AddNode("throw", "")
		b.N(h).Evs = sig("Z")
		e0 := b.AddNode("end", "")
		c := b.AddNode("catch", "")
		b.N(c).Evs = sig("A")
		u := b.AddNode("task", "")
		e := b.AddNode("end", "")
		b.Connect(s, x, prog.Cond{})
		b.Connect(x, h, prog.Cond{K: "false"})
		b.Connect(h, e0, prog.Cond{})
		b.N(x).Default = b.Connect(x, c, prog.Cond{})
		b.Connect(c, u, prog.Cond{})
		b.Connect(u, e, prog.Cond{})
		b.P.Tags = append(b.P.Tags, "catch", "throw", "throw-untaken", "xor")
		out = append(out, b.Done())
	}
	return out
}

// CatchShapes: the C11 corpus: 1..3 catch events in sequence and in parallel,
// one on a branch never taken, one behind a task (armed late), signal and
// message events.
func CatchShapes() []*prog.Program {
	var out []*prog.Program
	mk := func(name string, f func(b *prog.Builder), tags ...string) {
		b := prog.NewBuilder(name)
		f(b)
		b.P.Tags = append(b.P.Tags, "catch")
		b.P.Tags = append(b.P.Tags, tags...)
		out = append(out, b.Done())
	}
	catchTask := func(b *prog.Builder, prev string, evs []prog.EvDef) string {
		c := b.AddNode("catch", "")
		b.N(c).Evs = evs
		t := b.AddNode("task", "")
		b.Connect(prev, c, prog.Cond{})
		b.Connect(c, t, prog.Cond{})
		return t
	}
	mk("catch_one", func(b *prog.Builder) {
		s := b.AddNode("start", "")
		t := catchTask(b, s, sig("A"))
		e := b.AddNode("end", "")
		b.Connect(t, e, prog.Cond{})
	})
	// two tokens reach the SAME catch event (parallel fork, merged by an exclusive gateway):
	// one event releases both, each continues once
	mk("catch_two_tokens", func(b *prog.Builder) {
		s := b.AddNode("start", "")
		f := b.AddNode("and", "")
		x := b.AddNode("xor", "")
		b.Connect(s, f, prog.Cond{})
		b.Connect(f, x, prog.Cond{})
		b.Connect(f, x, prog.Cond{})
		t := catchTask(b, x, sig("A"))
		e := b.AddNode("end", "")
		b.Connect(t, e, prog.Cond{})
	}, "catch-two-tokens")
	// the second token arrives while the catch event already listens (behind a task)
	mk("catch_second_late", func(b *prog.Builder) {
		s := b.AddNode("start", "")
		f := b.AddNode("and", "")
		x := b.AddNode("xor", "")
		d := b.AddNode("task", "")
		b.Connect(s, f, prog.Cond{})
		b.Connect(f, x, prog.Cond{})
		b.Connect(f, d, prog.Cond{})
		b.Connect(d, x, prog.Cond{})
		t := catchTask(b, x, sig("A"))
		e := b.AddNode("end", "")
		b.Connect(t, e, prog.Cond{})
	}, "catch-two-tokens")
	mk("catch_msg", func(b *prog.Builder) {
		s := b.AddNode("start", "")
		t := catchTask(b, s, []prog.EvDef{{K: "message", Ref: "M"}})
		e := b.AddNode("end", "")
		b.Connect(t, e, prog.Cond{})
	}, "message")
	mk("catch_seq2", func(b *prog.Builder) {
		s := b.AddNode("start", "")
		t := catchTask(b, s, sig("A"))
		t2 := catchTask(b, t, sig("B"))
		e := b.AddNode("end", "")
		b.Connect(t2, e, prog.Cond{})
	})
	mk("catch_seq3_same", func(b *prog.Builder) {
		s := b.AddNode("start", "")
		t := catchTask(b, s, sig("A"))
		t2 := catchTask(b, t, sig("A"))
		t3 := catchTask(b, t2, sig("A"))
		e := b.AddNode("end", "")
		b.Connect(t3, e, prog.Cond{})
	})
	mk("catch_par2", func(b *prog.Builder) {
		s := b.AddNode("start", "")
		f := b.AddNode("and", "")
		j := b.AddNode("and", "")
		b.Connect(s, f, prog.Cond{})
		t1 := catchTask(b, f, sig("A"))
		t2 := catchTask(b, f, sig("B"))
		b.Connect(t1, j, prog.Cond{})
		b.Connect(t2, j, prog.Cond{})
		e := b.AddNode("end", "")
		b.Connect(j, e, prog.Cond{})
	}, "and")
	mk("catch_par2_same", func(b *prog.Builder) {
		s := b.AddNode("start", "")
		f := b.AddNode("and", "")
		j := b.AddNode("and", "")
		b.Connect(s, f, prog.Cond{})
		t1 := catchTask(b, f, sig("A"))
		t2 := catchTask(b, f, sig("A"))
		b.Connect(t1, j, prog.Cond{})
		b.Connect(t2, j, prog.Cond{})
		e := b.AddNode("end", "")
		b.Connect(j, e, prog.Cond{})
	}, "and")
	mk("catch_untaken", func(b *prog.Builder) {
		s := b.AddNode("start", "")
		x := b.AddNode("xor", "")
		m := b.AddNode("xor", "")
		b.Connect(s, x, prog.Cond{})
		b.P.Vars0["v"] = 0
		c1 := b.AddNode("catch", "")
		b.N(c1).Evs = sig("A")
		t1 := b.AddNode("task", "")
		b.Connect(x, c1, prog.Cond{K: "eq", V: "v", C: 0})
		b.Connect(c1, t1, prog.Cond{})
		b.Connect(t1, m, prog.Cond{})
		c2 := b.AddNode("catch", "")
		b.N(c2).Evs = sig("B")
		t2 := b.AddNode("task", "")
		d := b.Connect(x, c2, prog.Cond{})
		b.N(x).Default = d
		b.Connect(c2, t2, prog.Cond{})
		b.Connect(t2, m, prog.Cond{})
		e := b.AddNode("end", "")
		b.Connect(m, e, prog.Cond{})
	}, "catch-untaken")
	mk("catch_late", func(b *prog.Builder) {
		s := b.AddNode("start", "")
		t0 := b.AddNode("task", "")
		b.Connect(s, t0, prog.Cond{})
		t := catchTask(b, t0, sig("A"))
		e := b.AddNode("end", "")
		b.Connect(t, e, prog.Cond{})
	}, "catch-late")
	return out
}

// MultiCatchShapes: (parallel-)multiple intermediate catch events (C14 engine part).
func MultiCatchShapes() []*prog.Program {
	var out []*prog.Program
	for _, par := range []bool{false, true} {
		for n := 2; n <= 3; n++ {
			b := prog.NewBuilder(fmt.Sprintf("multi_par%v_n%d", par, n))
			s := b.AddNode("start", "")
			c := b.AddNode("catch", "")
			for i := 0; i < n; i++ {
				b.N(c).Evs = append(b.N(c).Evs, prog.EvDef{K: "signal", Ref: string(rune('A' + i))})
			}
			b.N(c).Parallel = par
			// the catch event sits in a loop so that it fires repeatedly
			m := b.AddNode("xor", "")
			t := b.AddNode("task", "")
			b.N(t).Writes = []string{"again"}
			b.P.Dom["again"] = []int{0, 1}
			b.P.Vars0["again"] = 0
			x := b.AddNode("xor", "")
			e := b.AddNode("end", "")
			b.Connect(s, m, prog.Cond{})
			b.Connect(m, c, prog.Cond{})
			b.Connect(c, t, prog.Cond{})
			b.Connect(t, x, prog.Cond{})
			b.Connect(x, m, prog.Cond{K: "eq", V: "again", C: 1})
			d := b.Connect(x, e, prog.Cond{})
			b.N(x).Default = d
			b.P.Tags = append(b.P.Tags, "catch", "multi")
			if par {
				b.P.Tags = append(b.P.Tags, "parallel-multiple")
			}
			out = append(out, b.Done())
		}
	}
	return out
}

// EventGatewayShapes: event-based gateway with 2..3 alternatives (C06).
func EventGatewayShapes() []*prog.Program {
	var out []*prog.Program
	for n := 2; n <= 3; n++ {
		b := prog.NewBuilder(fmt.Sprintf("evgw%d", n))
		s := b.AddNode("start", "")
		g := b.AddNode("evgw", "")
		b.Connect(s, g, prog.Cond{})
		for i := 0; i < n; i++ {
			c := b.AddNode("catch", "")
			b.N(c).Evs = sig(string(rune('A' + i)))
			t := b.AddNode("task", "")
			e := b.AddNode("end", "")
			b.Connect(g, c, prog.Cond{})
			b.Connect(c, t, prog.Cond{})
			b.Connect(t, e, prog.Cond{})
		}
		b.P.Tags = append(b.P.Tags, "evgw", fmt.Sprintf("alts%d", n))
		out = append(out, b.Done())
	}
	return out
}

// EventGatewayLoop: the gateway is activated again within one instance: the task behind
// alternative A writes `again`; again = 1 leads back to the gateway, otherwise to the end.
// start -> merge(xor) -> G -> [A: catch A -> tA -> decision(xor) -> merge | eA] [B: catch B -> tB -> eB]
func EventGatewayLoop() *prog.Program { return EventGatewayLoopKinds("signal", "signal") }

// EventGatewayLoopKinds: the kinds (signal | message) of the looping and of the leaving alternative.
func EventGatewayLoopKinds(kindA, kindB string) *prog.Program {
	b := prog.NewBuilder("evgw_loop_" + kindA + "_" + kindB)
	s := b.AddNode("start", "")
	m := b.AddNode("xor", "")
	g := b.AddNode("evgw", "")
	b.Connect(s, m, prog.Cond{})
	b.Connect(m, g, prog.Cond{})
	ca := b.AddNode("catch", "")
	b.N(ca).Evs = []prog.EvDef{{K: kindA, Ref: "A"}}
	ta := b.AddNode("task", "")
	b.N(ta).Writes = []string{"again"}
	b.P.Dom["again"] = []int{0, 1}
	b.P.Vars0["again"] = 0
	x := b.AddNode("xor", "")
	ea := b.AddNode("end", "")
	b.Connect(g, ca, prog.Cond{})
	b.Connect(ca, ta, prog.Cond{})
	b.Connect(ta, x, prog.Cond{})
	b.Connect(x, m, prog.Cond{K: "eq", V: "again", C: 1})
	d := b.Connect(x, ea, prog.Cond{})
	b.N(x).Default = d
	cb := b.AddNode("catch", "")
	b.N(cb).Evs = []prog.EvDef{{K: kindB, Ref: "B"}}
	tb := b.AddNode("task", "")
	eb := b.AddNode("end", "")
	b.Connect(g, cb, prog.Cond{})
	b.Connect(cb, tb, prog.Cond{})
	b.Connect(tb, eb, prog.Cond{})
	b.P.Tags = append(b.P.Tags, "evgw", "alts2", "loop", "evgw-reentry")
	return b.Done()
}

// BoundaryShapes: activities with 1..2 boundary events of either kind (C10).
// Normal path: host -> tn -> en ; exception path of boundary i: b_i -> tx_i -> ex_i.
func BoundaryShapes() []*prog.Program {
	var out []*prog.Program
	build := func(name string, kinds []bool, subHost bool) {
		b := prog.NewBuilder(name)
		s := b.AddNode("start", "")
		var host string
		if subHost {
			host = wrapSub(b, "", 1, func(sc string) (string, string) { t := b.AddNode("task", sc); return t, t })
		} else {
			host = b.AddNode("task", "")
		}
		tn := b.AddNode("task", "")
		en := b.AddNode("end", "")
		b.Connect(s, host, prog.Cond{})
		b.Connect(host, tn, prog.Cond{})
		b.Connect(tn, en, prog.Cond{})
		for i, intr := range kinds {
			bd := b.AddNode("boundary", "")
			b.N(bd).Attached = host
			b.N(bd).Intr = intr
			b.N(bd).Evs = sig(string(rune('A' + i)))
			tx := b.AddNode("task", "")
			ex := b.AddNode("end", "")
			b.Connect(bd, tx, prog.Cond{})
			b.Connect(tx, ex, prog.Cond{})
			if intr {
				b.P.Tags = append(b.P.Tags, "boundary-interrupting")
			} else {
				b.P.Tags = append(b.P.Tags, "boundary-noninterrupting")
			}
		}
		b.P.Tags = append(b.P.Tags, "boundary")
		if subHost {
			b.P.Tags = append(b.P.Tags, "boundary-sub-host", "sub")
		}
		out = append(out, b.Done())
	}
	build("bnd_i", []bool{true}, false)
	build("bnd_n", []bool{false}, false)
	build("bnd_in", []bool{true, false}, false)
	build("bnd_nn", []bool{false, false}, false)
	build("bnd_ii", []bool{true, true}, false)
	// two tokens wait in the same host activity at once (parallel fork, exclusive merge in front
	// of the host): an event still reaches the boundary event
	{
		b := prog.NewBuilder("bnd_two_tokens_n")
		s := b.AddNode("start", "")
		f := b.AddNode("and", "")
		m := b.AddNode("xor", "")
		host := b.AddNode("task", "")
		tn := b.AddNode("task", "")
		en := b.AddNode("end", "")
		b.Connect(s, f, prog.Cond{})
		b.Connect(f, m, prog.Cond{})
		b.Connect(f, m, prog.Cond{})
		b.Connect(m, host, prog.Cond{})
		b.Connect(host, tn, prog.Cond{})
		b.Connect(tn, en, prog.Cond{})
		bd := b.AddNode("boundary", "")
		b.N(bd).Attached = host
		b.N(bd).Intr = false
		b.N(bd).Evs = sig("A")
		tx := b.AddNode("task", "")
		ex := b.AddNode("end", "")
		b.Connect(bd, tx, prog.Cond{})
		b.Connect(tx, ex, prog.Cond{})
		b.P.Tags = append(b.P.Tags, "boundary-noninterrupting", "boundary", "boundary-two-tokens")
		out = append(out, b.Done())
	}
	build("bnd_sub_i", []bool{true}, true)
	build("bnd_sub_n", []bool{false}, true)
	// the host is activated again (loop back from a decision behind it): an event that arrives
	// during the SECOND wait reaches the boundary event as well
	// (non-interrupting only: the interrupting kind does not interrupt at all, findings F10..F10c)
	for _, intr := range []bool{false} {
		b := prog.NewBuilder(fmt.Sprintf("bnd_loop_%v", intr))
		s := b.AddNode("start", "")
		m := b.AddNode("xor", "")
		host := b.AddNode("task", "")
		b.N(host).Writes = []string{"again"}
		b.P.Dom["again"] = []int{0, 1}
		b.P.Vars0["again"] = 0
		x := b.AddNode("xor", "")
		tn := b.AddNode("task", "")
		en := b.AddNode("end", "")
		b.Connect(s, m, prog.Cond{})
		b.Connect(m, host, prog.Cond{})
		b.Connect(host, x, prog.Cond{})
		b.Connect(x, m, prog.Cond{K: "eq", V: "again", C: 1})
		d := b.Connect(x, tn, prog.Cond{})
		b.N(x).Default = d
		b.Connect(tn, en, prog.Cond{})
		bd := b.AddNode("boundary", "")
		b.N(bd).Attached = host
		b.N(bd).Intr = intr
		b.N(bd).Evs = sig("A")
		tx := b.AddNode("task", "")
		ex := b.AddNode("end", "")
		b.Connect(bd, tx, prog.Cond{})
		b.Connect(tx, ex, prog.Cond{})
		if intr {
			b.P.Tags = append(b.P.Tags, "boundary-interrupting")
		} else {
			b.P.Tags = append(b.P.Tags, "boundary-noninterrupting")
		}
		b.P.Tags = append(b.P.Tags, "boundary", "loop", "boundary-host-reentry")
		out = append(out, b.Done())
	}
	return out
}

// ParallelBurst: k tokens reach the N x M gateway G over each of its incoming
// flows at (nearly) the same time, so G is activated k times back to back:
// start -> fork0 (1 x k) -> XOR merge -> F (1 x N) -> G (N x M) -> d_1..d_M -> ends.
func ParallelBurst(n, m, k int) *prog.Program {
	b := prog.NewBuilder(fmt.Sprintf("burst_%dx%d_k%d", n, m, k))
	s := b.AddNode("start", "")
	f0 := b.AddNode("and", "")
	x := b.AddNode("xor", "")
	b.Connect(s, f0, prog.Cond{})
	for i := 0; i < k; i++ {
		b.Connect(f0, x, prog.Cond{})
	}
	f := b.AddNode("and", "")
	b.Connect(x, f, prog.Cond{})
	g := b.AddNode("and", "")
	for i := 0; i < n; i++ {
		b.Connect(f, g, prog.Cond{})
	}
	for j := 0; j < m; j++ {
		d := b.AddNode("task", "")
		e := b.AddNode("end", "")
		b.Connect(g, d, prog.Cond{})
		b.Connect(d, e, prog.Cond{})
	}
	b.P.Tags = append(b.P.Tags, "and", "burst", fmt.Sprintf("n%d", n), fmt.Sprintf("m%d", m))
	return b.Done()
}
