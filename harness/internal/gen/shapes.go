package gen

import (
	"fmt"

	"verif/harness/internal/prog"
)

// ParallelNM: start -> fork(1 x N) -> u_1..u_N -> G (N x M) -> d_1..d_M -> J (M x 1)
// -> [loop decision -> XOR back to fork | end].  rounds > 1 adds the loop so
// that G is re-entered; the environment decides after each round.
func ParallelNM(n, m int, loop bool) *prog.Program {
	b := prog.NewBuilder(fmt.Sprintf("par_%dx%d_loop%v", n, m, loop))
	s := b.AddNode("start", "")
	entry := s
	var merge string
	if loop {
		merge = b.AddNode("xor", "")
		b.Connect(s, merge, prog.Cond{})
		entry = merge
	}
	fork := b.AddNode("and", "")
	b.Connect(entry, fork, prog.Cond{})
	g := b.AddNode("and", "")
	for i := 0; i < n; i++ {
		u := b.AddNode("task", "")
		b.Connect(fork, u, prog.Cond{})
		b.Connect(u, g, prog.Cond{})
	}
	j := b.AddNode("and", "")
	for k := 0; k < m; k++ {
		d := b.AddNode("task", "")
		b.Connect(g, d, prog.Cond{})
		b.Connect(d, j, prog.Cond{})
	}
	e := b.AddNode("end", "")
	if loop {
		dt := b.AddNode("task", "")
		b.N(dt).Writes = []string{"again"}
		b.P.Dom["again"] = []int{0, 1}
		b.P.Vars0["again"] = 0
		b.Connect(j, dt, prog.Cond{})
		x := b.AddNode("xor", "")
		b.Connect(dt, x, prog.Cond{})
		b.Connect(x, merge, prog.Cond{K: "eq", V: "again", C: 1})
		df := b.Connect(x, e, prog.Cond{})
		b.N(x).Default = df
		b.P.Tags = append(b.P.Tags, "loop")
	} else {
		b.Connect(j, e, prog.Cond{})
	}
	b.P.Tags = append(b.P.Tags, "and", fmt.Sprintf("n%d", n), fmt.Sprintf("m%d", m))
	return b.Done()
}

// GatewayTable builds the decision-table program of an exclusive ("xor") or
// inclusive ("or") gateway with k conditional flows and the default flow at
// list position dpos (-1: no default).  Flow i is taken iff c_i = 1; one
// decision task writes all c_i, so TLC enumerates every truth assignment.
// tokens (1..3) tokens are sent to the gateway concurrently through a
// parallel fork.  Every branch leads to its own task; for "xor" each branch
// then ends in its own end event, for "or" the branches are joined by an
// inclusive join unless endBranch >= 0 names a branch that ends before it.
func GatewayTable(kind string, k, dpos, tokens, endBranch int) *prog.Program {
	b := prog.NewBuilder(fmt.Sprintf("%s_k%d_d%d_t%d_e%d", kind, k, dpos, tokens, endBranch))
	s := b.AddNode("start", "")
	dt := b.AddNode("task", "")
	b.Connect(s, dt, prog.Cond{})
	for i := 0; i < k; i++ {
		v := fmt.Sprintf("c%d", i)
		b.N(dt).Writes = append(b.N(dt).Writes, v)
		b.P.Dom[v] = []int{0, 1}
		b.P.Vars0[v] = 0
	}
	gw := b.AddNode(kind, "")
	if tokens > 1 {
		fork := b.AddNode("and", "")
		b.Connect(dt, fork, prog.Cond{})
		for i := 0; i < tokens; i++ {
			// a pass-through task per token so that arrival order is driven by the environment
			u := b.AddNode("task", "")
			b.Connect(fork, u, prog.Cond{})
			b.Connect(u, gw, prog.Cond{})
		}
	} else {
		b.Connect(dt, gw, prog.Cond{})
	}
	total := k
	if dpos >= 0 {
		total = k + 1
	}
	var join string
	if kind == "or" {
		join = b.AddNode("or", "")
	}
	ci := 0
	for pos := 0; pos < total; pos++ {
		t := b.AddNode("task", "")
		var f string
		if pos == dpos {
			f = b.Connect(gw, t, prog.Cond{})
			b.N(gw).Default = f
		} else {
			f = b.Connect(gw, t, prog.Cond{K: "eq", V: fmt.Sprintf("c%d", ci), C: 1})
			ci++
		}
		if kind == "or" && pos != endBranch {
			b.Connect(t, join, prog.Cond{})
		} else {
			e := b.AddNode("end", "")
			b.Connect(t, e, prog.Cond{})
		}
	}
	if kind == "or" {
		if len(b.N(join).In) == 0 {
			// unreachable join: give it an incoming flow that is never taken
			t := b.AddNode("task", "")
			b.Connect(gw, t, prog.Cond{K: "false"})
			b.Connect(t, join, prog.Cond{})
		}
		after := b.AddNode("task", "")
		b.Connect(join, after, prog.Cond{})
		e := b.AddNode("end", "")
		b.Connect(after, e, prog.Cond{})
	}
	b.P.Tags = append(b.P.Tags, kind, fmt.Sprintf("k%d", k), fmt.Sprintf("tokens%d", tokens))
	if dpos < 0 {
		b.P.Tags = append(b.P.Tags, kind+"-nodefault")
	}
	if endBranch >= 0 {
		b.P.Tags = append(b.P.Tags, kind+"-endbranch")
	}
	return b.Done()
}
