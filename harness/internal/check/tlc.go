// Package check holds the per-property decision pipelines: generate, let
// TLC enumerate / model-check, replay on the real engine in worker
// processes, let TLC validate the recorded runs, classify rejections against
// the known-findings file, write evidence.
package check

import (
	"bufio"
	"bytes"
	"context"
	"encoding/json"
	"fmt"
	"os"
	"os/exec"
	"path/filepath"
	"regexp"
	"strconv"
	"strings"
	"time"
)

const VerifRoot = "/verif"

// RepoRoot is the tree the harness was built against: /repo, unless VERIF_REPO names a
// scratch copy (evaluation of seeded changes only).
func RepoRoot() string {
	if d := os.Getenv("VERIF_REPO"); d != "" {
		return strings.TrimRight(d, "/")
	}
	return "/repo"
}

// OutRoot is where evidence and replay files are written: /verif, unless
// VERIF_OUT redirects them (used when a seeded change is evaluated in a
// scratch copy so that the committed evidence is not touched).
func OutRoot() string {
	if d := os.Getenv("VERIF_OUT"); d != "" {
		return d
	}
	return VerifRoot
}

type TLCResult struct {
	Generated int
	Distinct  int
	Depth     int
	WallS     float64
	Out       string
	OK        bool   // "Model checking completed. No error has been found."
	Violated  string // name of violated invariant/property, if any
	TimedOut  bool
}

type TLCOpts struct {
	Workers  int
	Timeout  time.Duration
	DFS      bool
	Simulate string // e.g. "num=1000" ; adds -depth
	Depth    int
	Seed     int64
	Xss      string
	Coverage bool
}

var reStates = regexp.MustCompile(`(\d+) states generated, (\d+) distinct states found`)
var reDepth = regexp.MustCompile(`depth of the complete state graph search is (\d+)`)
var reInv = regexp.MustCompile(`Invariant (\S+) is violated`)
var reProp = regexp.MustCompile(`Temporal properties were violated|Action property (\S+) is violated`)

// RunTLC copies the spec directory into dir, writes module.cfg and runs TLC.
func RunTLC(dir, module, cfg string, o TLCOpts) (TLCResult, error) {
	var res TLCResult
	specs, _ := filepath.Glob(filepath.Join(VerifRoot, "spec", "*.tla"))
	for _, f := range specs {
		b, err := os.ReadFile(f)
		if err != nil {
			return res, err
		}
		if err := os.WriteFile(filepath.Join(dir, filepath.Base(f)), b, 0o644); err != nil {
			return res, err
		}
	}
	cfgPath := filepath.Join(dir, module+".cfg")
	if err := os.WriteFile(cfgPath, []byte(cfg), 0o644); err != nil {
		return res, err
	}
	if o.Workers <= 0 {
		o.Workers = 1
	}
	if o.Timeout == 0 {
		o.Timeout = 10 * time.Minute
	}
	meta, err := os.MkdirTemp(dir, "meta")
	if err != nil {
		return res, err
	}
	args := []string{"-XX:+UseParallelGC"}
	if o.Xss != "" {
		args = append(args, "-Xss"+o.Xss)
	} else {
		args = append(args, "-Xss64m")
	}
	if o.DFS {
		args = append(args, "-Dtlc2.tool.queue.IStateQueue=StateDeque")
	}
	args = append(args, "-cp", "/opt/veriftools/tla/tla2tools.jar:/opt/veriftools/tla/CommunityModules-deps.jar", "tlc2.TLC",
		"-workers", strconv.Itoa(o.Workers), "-metadir", meta, "-config", module+".cfg")
	if o.Simulate != "" {
		args = append(args, "-simulate", o.Simulate)
		if o.Depth > 0 {
			args = append(args, "-depth", strconv.Itoa(o.Depth))
		}
		if o.Seed != 0 {
			args = append(args, "-seed", strconv.FormatInt(o.Seed, 10))
		}
	}
	if o.Coverage {
		args = append(args, "-coverage", "1")
	}
	args = append(args, module+".tla")
	ctx, cancel := context.WithTimeout(context.Background(), o.Timeout)
	defer cancel()
	cmd := exec.CommandContext(ctx, "java", args...)
	cmd.Dir = dir
	var buf bytes.Buffer
	cmd.Stdout = &buf
	cmd.Stderr = &buf
	t0 := time.Now()
	err = cmd.Run()
	res.WallS = time.Since(t0).Seconds()
	res.Out = buf.String()
	os.RemoveAll(meta)
	if ctx.Err() != nil {
		res.TimedOut = true
		return res, fmt.Errorf("tlc timed out after %v", o.Timeout)
	}
	for _, m := range reStates.FindAllStringSubmatch(res.Out, -1) {
		res.Generated, _ = strconv.Atoi(m[1])
		res.Distinct, _ = strconv.Atoi(m[2])
	}
	if m := reDepth.FindStringSubmatch(res.Out); m != nil {
		res.Depth, _ = strconv.Atoi(m[1])
	}
	res.OK = strings.Contains(res.Out, "No error has been found") || (o.Simulate != "" && err == nil)
	if m := reInv.FindStringSubmatch(res.Out); m != nil {
		res.Violated = m[1]
	} else if reProp.MatchString(res.Out) {
		res.Violated = "temporal"
	} else if strings.Contains(res.Out, "Deadlock reached") {
		res.Violated = "deadlock"
	}
	if !res.OK && res.Violated == "" {
		return res, fmt.Errorf("tlc failed (%v):\n%s", err, tail(res.Out, 3000))
	}
	return res, nil
}

func tail(s string, n int) string {
	if len(s) > n {
		return s[len(s)-n:]
	}
	return s
}

// ReadNDJSON reads a file of JSON lines.
func ReadNDJSON(path string, each func(line []byte) error) error {
	f, err := os.Open(path)
	if err != nil {
		return err
	}
	defer f.Close()
	sc := bufio.NewScanner(f)
	sc.Buffer(make([]byte, 1<<20), 1<<28)
	for sc.Scan() {
		b := bytes.TrimSpace(sc.Bytes())
		if len(b) == 0 {
			continue
		}
		if err := each(append([]byte(nil), b...)); err != nil {
			return err
		}
	}
	return sc.Err()
}

func WriteJSON(path string, v any) error {
	b, err := json.MarshalIndent(v, "", " ")
	if err != nil {
		return err
	}
	return os.WriteFile(path, b, 0o644)
}
