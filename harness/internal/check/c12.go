package check

import (
	"fmt"

	"verif/harness/internal/gen"
	"verif/harness/internal/prog"
)

// C12: embedded sub-process behaves like its content inlined.
func C12(c *Ctx) int {
	fs, _ := LoadFindings()
	n := 60
	if !c.Quick() {
		n = 400
	}
	var ps []*prog.Program
	for i := 0; i < n; i++ {
		f := gen.Features{Xor: true, And: i%2 == 0, Or: i%5 == 0, Loop: i%3 == 1, Sub: true, SubWeight: 3,
			EndInBranch: i%4 == 2, MaxDepth: 3 + i%3, MaxSize: 4 + i%6, MaxBranch: 2 + i%2,
			EmptyBranch: i%4 == 1, OlderVar: i%3 == 2, Throws: i%5 == 4}
		p := gen.Random(fmt.Sprintf("c12_%d_%d", c.Seed, i), c.Seed*1000+int64(i), f)
		if !p.HasTag("sub") {
			continue
		}
		ps = append(ps, p)
	}
	if err := c.TokenGameRound(fs, ps, RoundOpts{Label: "sub", MaxSteps: 10, MaxPerProg: 10}); err != nil {
		c.Infraf("%v", err)
	}
	shapes := gen.SubShapes()
	// the parent's next condition reads a variable an inner activity wrote
	shapes = append(shapes, gen.OtherWriterShapes("sub")...)
	if err := c.TokenGameRound(fs, shapes, RoundOpts{Label: "shapes", MaxSteps: 9, MaxPerProg: 20}); err != nil {
		c.Infraf("%v", err)
	}
	c.Extra["programs"] = len(ps) + len(shapes)
	return c.Finish("model_checking", "random block-structured programs with blocks wrapped in 1..3 levels of embedded sub-process, inside parallel branches and loops; TokenGame models a sub-process as its content run in a scope (inner activities requested as inline, parent token continues once after the scope is empty); TLC enumerates answer orders, the real engine replays them, TokenGameTrace validates", false, fs)
}
