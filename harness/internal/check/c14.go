package check

import (
	"verif/harness/internal/gen"
)

// C14 (engine part): a (parallel-)multiple intermediate catch event in a process.
func c14Engine(c *Ctx, fs []Finding) {
	ps := gen.MultiCatchShapes()
	sim := 500
	if !c.Quick() {
		sim = 5000
	}
	if err := c.TokenGameRound(fs, ps, RoundOpts{Label: "engine", MaxSteps: 14, Simulate: sim, MaxPerProg: 120,
		Features: []string{"deliver"}, MaxDeliver: 9}); err != nil {
		c.Infraf("%v", err)
	}
}
