package check

import (
	"encoding/json"
	"fmt"
	"path/filepath"
	"strings"
	"time"

	"github.com/olive-io/bpmn/schema"
	"github.com/olive-io/bpmn/v2/pkg/event"
	"github.com/olive-io/bpmn/v2/pkg/logic"

	"verif/harness/internal/gen"
)

type satEdge struct {
	From [][]int `json:"from"`
	Ev   int     `json:"ev"`
	M    bool    `json:"m"`
	C    int     `json:"c"`
	To   [][]int `json:"to"`
}

type satisfier interface {
	Satisfy(ev event.IEvent) (bool, int)
}

func newSatisfier(n int, mode string) (satisfier, error) {
	var defs strings.Builder
	for i := 1; i <= n; i++ {
		fmt.Fprintf(&defs, `<bpmn:signalEventDefinition signalRef="S%d"/>`, i)
	}
	par := ""
	if mode == "parallel" {
		par = ` parallelMultiple="true"`
	}
	el := "intermediateCatchEvent"
	if mode == "throw" {
		el = "intermediateThrowEvent"
	}
	xml := fmt.Sprintf(`<?xml version="1.0" encoding="UTF-8"?><bpmn:definitions xmlns:bpmn="http://www.omg.org/spec/BPMN/20100524/MODEL" id="d"><bpmn:process id="p" isExecutable="true"><bpmn:%s id="c"%s>%s</bpmn:%s></bpmn:process></bpmn:definitions>`, el, par, defs.String(), el)
	d, err := schema.Parse([]byte(xml))
	if err != nil {
		return nil, err
	}
	proc := &(*d.Processes())[0]
	if mode == "throw" {
		evs := *proc.IntermediateThrowEvents()
		if len(evs) != 1 {
			return nil, fmt.Errorf("throw event not parsed")
		}
		return logic.NewThrowEventSatisfier(&evs[0].ThrowEvent, event.WrappingDefinitionInstanceBuilder), nil
	}
	evs := *proc.IntermediateCatchEvents()
	if len(evs) != 1 {
		return nil, fmt.Errorf("catch event not parsed")
	}
	return logic.NewCatchEventSatisfier(&evs[0].CatchEvent, event.WrappingDefinitionInstanceBuilder), nil
}

func evFor(i int) event.IEvent {
	if i == 0 {
		return event.NewSignalEvent("no-such-signal")
	}
	return event.NewSignalEvent(fmt.Sprintf("S%d", i))
}

// C14: multiple / parallel-multiple catch events account correctly over any history.
func C14(c *Ctx) int {
	fs, _ := LoadFindings()
	maxN, maxLen, depth := 3, 8, 7
	if !c.Quick() {
		maxN, maxLen, depth = 4, 9, 9
	}
	histories := 0
	for _, mode := range []string{"plain", "parallel", "throw"} {
		for n := 1; n <= maxN; n++ {
			// (1) TLC: the algorithm satisfies the counting properties for all histories up to maxLen
			dir := c.sub(fmt.Sprintf("sat-%s-%d", mode, n))
			edgeFile := filepath.Join(dir, "edges.ndjson")
			cfg := fmt.Sprintf("SPECIFICATION Spec\nCONSTANTS\n  N = %d\n  Mode = %q\n  MaxLen = %d\n  OutFile = %q\nINVARIANTS PlainFiresOnAnyMatch NeverMoreThanLeast ExactlyKWhenBalanced ChainsAccountForMatches\nPROPERTIES NonMatchingIsStutter\nCHECK_DEADLOCK FALSE\n", n, mode, maxLen, edgeFile)
			res, err := RunTLC(dir, "Satisfier", cfg, TLCOpts{Workers: 8, Timeout: 15 * time.Minute})
			if err != nil {
				c.Infraf("satisfier model checking %s/%d: %v", mode, n, err)
				continue
			}
			if res.Violated != "" {
				c.Infraf("Satisfier.tla violates its own property %s for %s/%d (spec-level)", res.Violated, mode, n)
				continue
			}
			c.States += res.Distinct
			c.Transitions += res.Generated
			// (2) TLC: export the labelled transition relation over the satisfier's own state
			cfg = fmt.Sprintf("SPECIFICATION Spec\nCONSTANTS\n  N = %d\n  Mode = %q\n  MaxLen = 1000000\n  OutFile = %q\nVIEW EdgeView\nCONSTRAINT EdgeBound\nACTION_CONSTRAINT RecordEdge\nPOSTCONDITION DumpEdges\nCHECK_DEADLOCK FALSE\n", n, mode, edgeFile)
			res, err = RunTLC(dir, "Satisfier", cfg, TLCOpts{Workers: 1, Timeout: 15 * time.Minute})
			if err != nil {
				c.Infraf("satisfier edge export %s/%d: %v", mode, n, err)
				continue
			}
			edges := map[string]satEdge{}
			key := func(st [][]int, ev int) string { b, _ := json.Marshal(st); return fmt.Sprintf("%s|%d", b, ev) }
			ReadNDJSON(edgeFile, func(line []byte) error {
				var e satEdge
				if err := json.Unmarshal(line, &e); err != nil {
					return err
				}
				if e.From == nil {
					e.From = [][]int{}
				}
				if e.To == nil {
					e.To = [][]int{}
				}
				edges[key(e.From, e.Ev)] = e
				return nil
			})
			c.Transitions += len(edges)
			// (3) every path of the transition relation up to `depth` is stepped
			// through the real satisfier: one implementation test per transition
			seq := make([]int, depth)
			var walk func(pos int) bool
			bad := false
			walk = func(pos int) bool {
				if pos == depth {
					histories++
					s, err := newSatisfier(n, mode)
					if err != nil {
						c.Infraf("cannot build satisfier: %v", err)
						return false
					}
					st := [][]int{}
					for k, ev := range seq {
						e, ok := edges[key(st, ev)]
						if !ok {
							return true // beyond the exported bound (more than 4 open chains)
						}
						m, ch := s.Satisfy(evFor(ev))
						if m != e.M || ch != e.C {
							bad = true
							c.Reject(fs, Rejection{Prop: "C14", Tags: []string{"satisfier", mode}, Ev: "satisfy",
								Detail: fmt.Sprintf("mode=%s N=%d history=%v step %d: real (matched=%v chain=%d) spec (matched=%v chain=%d)", mode, n, seq[:k+1], k, m, ch, e.M, e.C)},
								map[string]any{"mode": mode, "n": n, "history": append([]int{}, seq[:k+1]...)})
							return false
						}
						st = e.To
					}
					return true
				}
				for ev := 0; ev <= n; ev++ {
					seq[pos] = ev
					if !walk(pos + 1) {
						return false
					}
				}
				return true
			}
			walk(0)
			_ = bad
		}
	}
	c.Evaluations += histories
	c.TracesValidated += histories
	c.Samples = append(c.Samples, map[string]any{"mode": "parallel", "n": 3, "history": []int{1, 1, 2, 3, 0, 2, 3}, "meaning": "event i matches definition i, 0 matches none; each Satisfy result compared with the spec's transition"})
	c14Engine(c, fs)
	c.Extra["satisfier_histories_stepped"] = histories
	return c.Finish("model_checking", "Satisfier.tla (transcribed chain algorithm + counting properties) model-checked for every history up to the bound; its labelled transition relation exported by TLC and every path up to the depth bound stepped through the real logic.CatchEventSatisfier / ThrowEventSatisfier comparing (matched, chain) at every step; plus (parallel-)multiple catch events inside a running process (event histories from TLC, TokenGameTrace)", true, fs)
}

// c14Engine: a (parallel-)multiple intermediate catch event in a process.
func c14Engine(c *Ctx, fs []Finding) {
	ps := gen.MultiCatchShapes()
	sim := 500
	if !c.Quick() {
		sim = 5000
	}
	if err := c.TokenGameRound(fs, ps, RoundOpts{Label: "engine", MaxSteps: 14, Simulate: sim, MaxPerProg: 120,
		Features: []string{"deliver"}, MaxDeliver: 9}); err != nil {
		c.Infraf("%v", err)
	}
}
