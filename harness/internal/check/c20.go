package check

import (
	"encoding/json"
	"fmt"
	"math/rand"
	"os"
	"path/filepath"
	"time"

	"verif/harness/internal/drive"
	"verif/harness/internal/gen"
	"verif/harness/internal/prog"
)

// C20: generated identifiers never collide.
func C20(c *Ctx) int {
	fs, _ := LoadFindings()
	// (1) the design: IdGen.tla, all interleavings of a few generators with a tiny sequence pool
	dir := c.sub("idgen")
	mg, mi := 2, 6
	if !c.Quick() {
		mg, mi = 3, 7
	}
	cfg := fmt.Sprintf("SPECIFICATION Spec\nCONSTANTS\n  MaxGen = %d\n  SeqMax = 1\n  MaxTick = 2\n  MaxIds = %d\nINVARIANTS Distinct LivePartitionsDiffer\nCHECK_DEADLOCK FALSE\n", mg, mi)
	res, err := RunTLC(dir, "IdGen", cfg, TLCOpts{Workers: 12, Timeout: 20 * time.Minute})
	if err != nil {
		c.Infraf("IdGen.tla: %v", err)
	} else if res.Violated != "" {
		c.Infraf("IdGen.tla violates %s (design-level)", res.Violated)
	} else {
		c.States += res.Distinct
		c.Transitions += res.Generated
	}
	// (1b) level M: the draw path of the sno generator as pkg/id uses it (serialised by a mutex);
	// the unserialised variant is checked as well and TLC's counterexample documents why the mutex is needed
	for _, ser := range []string{"TRUE", "FALSE"} {
		d2 := c.sub("idrace" + ser)
		cfg2 := fmt.Sprintf("SPECIFICATION Spec\nCONSTANTS\n  Callers = {\"a\", \"b\", \"c\"}\n  MaxTick = 2\n  MaxIds = 5\n  Serialised = %s\nINVARIANT Distinct\nCHECK_DEADLOCK FALSE\n", ser)
		r2, err := RunTLC(d2, "IdGenRace", cfg2, TLCOpts{Workers: 8, Timeout: 10 * time.Minute})
		if err != nil {
			c.Infraf("IdGenRace.tla: %v", err)
			continue
		}
		if ser == "TRUE" {
			if r2.Violated != "" {
				c.Infraf("IdGenRace.tla (serialised) violates %s (design-level)", r2.Violated)
			}
			c.States += r2.Distinct
			c.Transitions += r2.Generated
		} else {
			c.Extra["unserialised_draw_counterexample_found_by_TLC"] = r2.Violated == "Distinct"
		}
	}
	// (2) recorded draw histories validated by IdGenTrace
	rng := rand.New(rand.NewSource(c.Seed))
	n := 24
	if !c.Quick() {
		n = 120
	}
	traceFile := filepath.Join(dir, "trace.ndjson")
	f, _ := os.Create(traceFile)
	enc := json.NewEncoder(f)
	lines := 0
	var first drive.IdScenario
	for r := 0; r < n; r++ {
		sc := drive.IdScenario{Gens: 1 + rng.Intn(8), Goroutines: 1 + rng.Intn(16), Draws: 1 + rng.Intn(12), Restores: rng.Intn(3), Fallback: rng.Intn(3), Record: true}
		if r == 0 {
			first = sc
		}
		out := drive.IdRun(r, sc)
		for _, rec := range out.Log {
			enc.Encode(rec)
			lines++
		}
		c.Evaluations++
	}
	f.Close()
	acc, fails, tres, err := c.runTraceSpec(dir, "IdGenTrace", "", traceFile, lines)
	if err != nil {
		c.Infraf("id trace validation: %v", err)
	} else {
		c.States += tres.Distinct
		c.Transitions += tres.Generated
		c.TracesValidated += n
		for r := 0; r < n; r++ {
			if !acc[r] {
				fl := fails[r]
				c.Reject(fs, Rejection{Prop: "C20", Tags: []string{"idgen"}, Ev: fl.Ev, Detail: "identifier draw history rejected at " + fl.Ev + " " + fl.Node},
					map[string]any{"run": r})
			}
		}
	}
	c.Samples = append(c.Samples, map[string]any{"scenario": first})
	// (3) large sweeps (up to 10^6 draws): distinctness checked while drawing
	// (many goroutines on ONE generator across many time-unit changes is the hard case)
	sweeps := []drive.IdScenario{{Gens: 2, Goroutines: 16, Draws: 4000, Restores: 1, Fallback: 1},
		{Gens: 1, Goroutines: 16, Draws: 40000, Restores: 1}, {Gens: 1, Goroutines: 16, Draws: 40000}}
	if !c.Quick() {
		sweeps = append(sweeps, drive.IdScenario{Gens: 8, Goroutines: 16, Draws: 6000, Restores: 2, Fallback: 2},
			drive.IdScenario{Gens: 1, Goroutines: 16, Draws: 62500, Restores: 0, Fallback: 1},
			drive.IdScenario{Gens: 1, Goroutines: 16, Draws: 62500, Restores: 2},
			drive.IdScenario{Gens: 1, Goroutines: 8, Draws: 125000})
	}
	total := 0
	for i, sc := range sweeps {
		out := drive.IdRun(1000+i, sc)
		total += out.Draws
		if out.Duplicate != "" {
			c.Reject(fs, Rejection{Prop: "C20", Tags: []string{"idgen", "sweep"}, Ev: "new", Detail: "duplicate identifier " + out.Duplicate},
				map[string]any{"scenario": sc, "duplicate": out.Duplicate})
		}
	}
	c.Extra["sweep_draws"] = total
	// (4) ids in engine traces: flow ids and instance ids never repeat (TraceGrammar)
	var ps []*prog.Program
	np := 20
	if !c.Quick() {
		np = 150
	}
	for i := 0; i < np; i++ {
		ft := gen.Features{Xor: true, And: true, Loop: i%3 == 1, Sub: i%2 == 0, MaxDepth: 3, MaxSize: 5 + i%5, MaxBranch: 3}
		ps = append(ps, gen.Random(fmt.Sprintf("c20_%d_%d", c.Seed, i), c.Seed*1000+int64(i), ft))
	}
	c.grammarRound(fs, ps, "ids-in-traces")
	return c.Finish("model_checking", "IdGen.tla (partitions, per-unit sequence pool with overflow wait, snapshot/restore hand-over, live partitions differ) model-checked for all interleavings of 3 generators with a 2-entry sequence pool; recorded draw histories of the real generators (1..8 generators x 1..16 goroutines, snapshot/restore chains, fallback generators), every id decoded (partition, time unit, sequence), validated by IdGenTrace; large concurrent sweeps with distinctness checked while drawing; flow/instance ids of engine runs validated by TraceGrammar", false, fs)
}
