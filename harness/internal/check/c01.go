package check

import (
	"fmt"

	"verif/harness/internal/gen"
	"verif/harness/internal/prog"
)

// C01: token flow conforms to BPMN semantics.
func C01(c *Ctx) int {
	fs, err := LoadFindings()
	if err != nil {
		c.Infraf("findings: %v", err)
	}
	n := 60
	if !c.Quick() {
		n = 400
	}
	var ps []*prog.Program
	for i := 0; i < n; i++ {
		f := gen.Features{Xor: true, And: true, Or: i%3 == 0, Loop: i%4 == 1, CondFlow: i%5 == 2, Sub: false,
			NoDefault: i%7 == 3, EndInBranch: i%6 == 4, MaxDepth: 3 + i%2, MaxSize: 4 + i%6, MaxBranch: 2 + i%2,
			EmptyBranch: i%4 == 2, OlderVar: i%3 == 1, Throws: i%5 == 3}
		ps = append(ps, gen.Random(fmt.Sprintf("c01_%d_%d", c.Seed, i), c.Seed*1000+int64(i), f))
	}
	if err := c.TokenGameRound(fs, ps, RoundOpts{Label: "c01", MaxSteps: 10, MaxPerProg: 12}); err != nil {
		c.Infraf("%v", err)
	}
	// a condition reads a variable that ANOTHER token wrote (ordered by a parallel join)
	if err := c.TokenGameRound(fs, gen.OtherWriterShapes("and"), RoundOpts{Label: "other-writer", MaxSteps: 8}); err != nil {
		c.Infraf("%v", err)
	}
	// gateways of each kind re-entered through a loop, default flow at every position (the same
	// token passes the same gateway again after having taken the default / a conditional flow)
	{
		var re []*prog.Program
		for _, kind := range []string{"xor", "or"} {
			for dpos := 0; dpos <= 2; dpos++ {
				re = append(re, gen.GatewayTableLoop(kind, 2, dpos, 1, -1, true))
			}
		}
		if err := c.TokenGameRound(fs, re, RoundOpts{Label: "reentry", MaxSteps: 16, Simulate: 240, MaxPerProg: 30}); err != nil {
			c.Infraf("%v", err)
		}
	}
	// level M: the generated programs made only of tasks, exclusive and parallel gateways (no loop:
	// the flow bound) go through Engine.tla as well: every goroutine interleaving against the game
	{
		var fam []*prog.Program
		for _, p := range ps {
			if engineSupported(p) && !p.HasTag("loop") && len(p.Nodes) <= 12 && len(fam) < 10 {
				fam = append(fam, p)
			}
		}
		fam = append(fam, gen.ParallelNM(2, 2, false))
		c.EngineRound(fam, EngineOpts{Label: "c01", MaxFlows: 12, NWaiters: 0, RunsPer: 2})
	}
	c.Extra["programs"] = len(ps)
	c.Assumptions = append(c.Assumptions, "programs are block-structured and data-race-free by construction (a gateway reads only an input variable or the result of the decision task directly before it)")
	return c.Finish("model_checking", "random block-structured programs (seeded); TLC enumerates all answer orders x result values per program (capped, seeded sample); each schedule replayed on the real engine and the recorded run validated by TokenGameTrace", false, fs)
}
