package check

import (
	"encoding/json"
	"fmt"
	"os"
	"path/filepath"
	"sort"
	"strings"
	"time"

	"verif/harness/internal/drive"
	"verif/harness/internal/prog"
)

// Ctx is one invocation of a property check.
type Ctx struct {
	Prop    string
	Tier    string
	Seed    int64
	Dir     string // scratch directory (removed at the end)
	T0      time.Time
	Workers int

	// accumulated evidence
	States, Transitions int
	TracesValidated     int
	Evaluations         int
	Samples             []any
	Notes               []string
	Assumptions         []string
	Extra               map[string]any
	Violations          []Violation
	Known               map[string]int // finding id -> occurrences
	Infra               []string
	// AsIs: the next ValidateTrace calls judge by the AS-IS variant of the token game (known
	// deviations of the pinned implementation modelled as behaviour); used only to tell a
	// known finding from a new violation, never for a check's own accept decision
	AsIs bool
}

type Violation struct {
	Prop   string
	Replay string
	What   string
}

func NewCtx(prop, tier string, seed int64) (*Ctx, error) {
	dir, err := os.MkdirTemp("", "vh-"+prop+"-")
	if err != nil {
		return nil, err
	}
	return &Ctx{Prop: prop, Tier: tier, Seed: seed, Dir: dir, T0: time.Now(), Workers: 16,
		Extra: map[string]any{}, Known: map[string]int{}}, nil
}

func (c *Ctx) Close() { os.RemoveAll(c.Dir) }

func (c *Ctx) Quick() bool { return c.Tier != "thorough" }

func (c *Ctx) sub(name string) string {
	d := filepath.Join(c.Dir, name)
	os.MkdirAll(d, 0o755)
	return d
}

func (c *Ctx) Infraf(format string, a ...any) {
	c.Infra = append(c.Infra, fmt.Sprintf(format, a...))
}

func writePrograms(path string, ps []*prog.Program) error {
	var sb strings.Builder
	sb.WriteString("[")
	for i, p := range ps {
		if i > 0 {
			sb.WriteString(",\n")
		}
		sb.Write(p.JSON())
	}
	sb.WriteString("]\n")
	return os.WriteFile(path, []byte(sb.String()), 0o644)
}

// ExportSchedules lets TLC (TokenGameExport or a compatible module)
// enumerate all maximal environment schedules of the programs.
func (c *Ctx) ExportSchedules(module string, ps []*prog.Program, maxSteps int, extraCfg string, invariants []string, simulate int) ([]drive.Schedule, TLCResult, error) {
	dir := c.sub("export")
	progFile := filepath.Join(dir, "programs.json")
	if err := writePrograms(progFile, ps); err != nil {
		return nil, TLCResult{}, err
	}
	outFile := filepath.Join(dir, "sched.ndjson")
	os.Remove(outFile)
	cfg := fmt.Sprintf("SPECIFICATION XSpec\nCONSTANTS\n  ProgFile = %q\n  OutFile = %q\n  MaxSteps = %d\n%s\nCONSTRAINT Record\nPOSTCONDITION Dump\nCHECK_DEADLOCK FALSE\n",
		progFile, outFile, maxSteps, extraCfg)
	if len(invariants) > 0 {
		cfg += "INVARIANTS " + strings.Join(invariants, " ") + "\n"
	}
	topts := TLCOpts{Workers: 1, Timeout: 20 * time.Minute}
	if simulate > 0 {
		topts.Simulate = fmt.Sprintf("num=%d", simulate)
		topts.Depth = maxSteps + 2
		topts.Seed = c.Seed
	}
	res, err := RunTLC(dir, module, cfg, topts)
	if err != nil {
		return nil, res, err
	}
	if res.Violated != "" {
		return nil, res, fmt.Errorf("token game invariant %s violated on the exported family (spec-level problem):\n%s", res.Violated, tail(res.Out, 2500))
	}
	var out []drive.Schedule
	seen := map[string]bool{}
	err = ReadNDJSON(outFile, func(line []byte) error {
		if seen[string(line)] {
			return nil
		}
		seen[string(line)] = true
		s, err := drive.ParseTLCSchedule(line)
		if err != nil {
			return err
		}
		out = append(out, *s)
		return nil
	})
	c.States += res.Distinct
	c.Transitions += res.Generated
	return out, res, err
}

type Failure struct {
	Run  int
	L    int
	Ev   string
	Node string
}

// ValidateTrace runs a trace specification over the concatenated filtered
// logs.  Returns the set of accepted runs and, per rejected run, the latest
// failure point.
func (c *Ctx) ValidateTrace(module string, ps []*prog.Program, runs map[int][]drive.Rec, filter func(*prog.Program, []drive.Rec) []drive.Rec, progOf func(run int) int, extraCfg string) (map[int]bool, map[int]Failure, TLCResult, error) {
	dir := c.sub("validate")
	progFile := filepath.Join(dir, "programs.json")
	if err := writePrograms(progFile, ps); err != nil {
		return nil, nil, TLCResult{}, err
	}
	traceFile := filepath.Join(dir, "trace.ndjson")
	f, err := os.Create(traceFile)
	if err != nil {
		return nil, nil, TLCResult{}, err
	}
	idx := make([]int, 0, len(runs))
	for r := range runs {
		idx = append(idx, r)
	}
	sort.Ints(idx)
	enc := json.NewEncoder(f)
	n := 0
	for _, r := range idx {
		p := ps[progOf(r)]
		for _, rec := range filter(p, runs[r]) {
			rec.Run = r
			if rec.Ev == "init" {
				rec.Ok = c.AsIs
			}
			if rec.Flows == nil {
				rec.Flows = []string{}
			}
			if rec.Vars == nil {
				rec.Vars = map[string]int{}
			}
			if rec.Fids == nil {
				rec.Fids = []string{}
			}
			enc.Encode(rec)
			n++
		}
	}
	f.Close()
	acc, fails, res, err := c.runTraceSpec(dir, module, fmt.Sprintf("  ProgFile = %q\n", progFile)+extraCfg, traceFile, n)
	if err != nil {
		return nil, nil, res, err
	}
	c.States += res.Distinct
	c.Transitions += res.Generated
	c.TracesValidated += len(idx)
	return acc, fails, res, nil
}

// runTraceSpec runs a trace specification (TraceSpec / Report convention) over
// an ndjson trace file with n lines.
func (c *Ctx) runTraceSpec(dir, module, constants, traceFile string, n int) (map[int]bool, map[int]Failure, TLCResult, error) {
	outFile := filepath.Join(dir, "out.json")
	os.Remove(outFile)
	cfg := fmt.Sprintf("SPECIFICATION TraceSpec\nCONSTANTS\n  TraceFile = %q\n  OutFile = %q\n%s\nPOSTCONDITION Report\nCHECK_DEADLOCK FALSE\n",
		traceFile, outFile, constants)
	res, err := RunTLC(dir, module, cfg, TLCOpts{Workers: 1, Timeout: 30 * time.Minute, Xss: "512m"})
	if err != nil {
		return nil, nil, res, err
	}
	var rep struct {
		Accepted []int               `json:"accepted"`
		Failures [][]json.RawMessage `json:"failures"`
		Len      int                 `json:"len"`
	}
	b, err := os.ReadFile(outFile)
	if err != nil {
		return nil, nil, res, fmt.Errorf("trace validation produced no report: %v\n%s", err, tail(res.Out, 2000))
	}
	if err := json.Unmarshal(b, &rep); err != nil {
		return nil, nil, res, err
	}
	if rep.Len != n {
		return nil, nil, res, fmt.Errorf("trace length mismatch %d vs %d", rep.Len, n)
	}
	acc := map[int]bool{}
	for _, r := range rep.Accepted {
		acc[r] = true
	}
	fails := map[int]Failure{}
	for _, fr := range rep.Failures {
		if len(fr) < 4 {
			continue
		}
		var fl Failure
		json.Unmarshal(fr[0], &fl.Run)
		json.Unmarshal(fr[1], &fl.L)
		json.Unmarshal(fr[2], &fl.Ev)
		json.Unmarshal(fr[3], &fl.Node)
		if acc[fl.Run] {
			continue
		}
		if old, ok := fails[fl.Run]; !ok || fl.L > old.L {
			fails[fl.Run] = fl
		}
	}
	return acc, fails, res, nil
}
