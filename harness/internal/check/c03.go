package check

import (
	"verif/harness/internal/gen"
	"verif/harness/internal/prog"
)

// C03: parallel gateway N x M, every arrival permutation, re-entry.
func C03(c *Ctx) int {
	fs, _ := LoadFindings()
	var once, loops []*prog.Program
	for n := 1; n <= 4; n++ {
		for m := 1; m <= 4; m++ {
			once = append(once, gen.ParallelNM(n, m, false))
			loops = append(loops, gen.ParallelNM(n, m, true))
		}
	}
	// single activation: exhaustive over all N! x M! answer orders
	capOnce := 0
	if c.Quick() {
		capOnce = 40
	}
	if err := c.TokenGameRound(fs, once, RoundOpts{Label: "once", MaxSteps: 12, MaxPerProg: capOnce}); err != nil {
		c.Infraf("%v", err)
	}
	// 1..3 consecutive activations of the same gateway: TLC random simulation of the game
	sim := 600
	if !c.Quick() {
		sim = 6000
	}
	if err := c.TokenGameRound(fs, loops, RoundOpts{Label: "reentry", MaxSteps: 30, Simulate: sim}); err != nil {
		c.Infraf("%v", err)
	}
	// back-to-back activations: k tokens per incoming flow arrive in one burst
	var bursts []*prog.Program
	for n := 1; n <= 3; n++ {
		for m := 1; m <= 3; m++ {
			for k := 2; k <= 3; k++ {
				bursts = append(bursts, gen.ParallelBurst(n, m, k))
			}
		}
	}
	if err := c.TokenGameRound(fs, bursts, RoundOpts{Label: "burst", MaxSteps: 10, Simulate: 150, MaxPerProg: 10,
		Job: JobOpts{Perturb: 9, HoldPoints: []string{"and.arrive", "flow.action", "flow.flowtrace", "tracer.take"}}}); err != nil {
		c.Infraf("%v", err)
	}
	// two tokens over ONE incoming flow while the other incoming flow is still empty:
	// the gateway must keep waiting (found by model checking Engine.tla: EngineWithinGame)
	if err := c.TokenGameRound(fs, []*prog.Program{DoubleArrival()}, RoundOpts{Label: "double-arrival", MaxSteps: 6, Invariants: []string{"XCeaseIffDone", "XReqOnce"}, Job: JobOpts{LingerMs: 25}}); err != nil {
		c.Infraf("%v", err)
	}
	// level M: the gateway's inbox, parked tokens and distributeFlows over every interleaving
	{
		maxN := 2
		if !c.Quick() {
			maxN = 3
		}
		var fam []*prog.Program
		for n := 1; n <= maxN; n++ {
			for m := 1; m <= maxN; m++ {
				fam = append(fam, gen.ParallelNM(n, m, false))
			}
		}
		fam = append(fam, gen.ParallelBurst(1, 1, 2), gen.ParallelBurst(2, 1, 2), gen.ParallelBurst(1, 2, 2), DoubleArrival())
		c.EngineRound(fam, EngineOpts{Label: "parallel", MaxFlows: 12, NWaiters: 0, RunsPer: 3})
	}
	c.Extra["programs"] = len(once) + len(loops) + len(bursts) + 1
	c.Assumptions = append(c.Assumptions, "upstream tokens reach the gateway in the order their tasks are answered only up to goroutine scheduling; the property must hold for every order, so this is not an assumption of the verdict")
	return c.Finish("model_checking", "all N x M in 1..4: TLC enumerates every order of answering the N upstream and M downstream tasks (single activation, exhaustive in thorough tier, capped sample in quick) and simulates 1..3 re-entries through a loop; every schedule replayed on the real engine and validated by TokenGameTrace", !c.Quick(), fs)
}
