package check

import (
	"encoding/json"
	"fmt"
	"math/rand"
	"os"
	"path/filepath"
	"sort"
	"time"

	"verif/harness/internal/drive"
	"verif/harness/internal/gen"
	"verif/harness/internal/prog"
)

func mcTracer(senders, subs []string, caps []int, nmsg int) (string, string) {
	q := func(xs []string) string {
		s := "{"
		for i, x := range xs {
			if i > 0 {
				s += ", "
			}
			s += fmt.Sprintf("%q", x)
		}
		return s + "}"
	}
	capf := "[s \\in MCSubs |-> "
	for i, s := range subs {
		if i < len(subs)-1 {
			capf += fmt.Sprintf("IF s = %q THEN %d ELSE ", s, caps[i])
		} else {
			capf += fmt.Sprintf("%d", caps[i])
		}
	}
	capf += "]"
	mod := fmt.Sprintf("---- MODULE MCTracer ----\nEXTENDS Tracer\nMCSenders == %s\nMCSubs == %s\nMCCap == %s\n====\n", q(senders), q(subs), capf)
	cfg := fmt.Sprintf("SPECIFICATION Spec\nCONSTANTS\n  Senders <- MCSenders\n  Subs <- MCSubs\n  Cap <- MCCap\n  NMsg = %d\nINVARIANTS Contiguous NothingMissed SenderOrder ClosedAtMostOnce ClosedOnExit\nPROPERTIES EventuallyQuiet\n", nmsg)
	return mod, cfg
}

// C09: the trace stream is one causally consistent total order.
func C09(c *Ctx) int {
	fs, _ := LoadFindings()
	// (1) exhaustive: Tracer.tla over small constants (all interleavings)
	type mc struct {
		senders, subs []string
		caps          []int
		nmsg          int
	}
	cfgs := []mc{{[]string{"p", "q"}, []string{"a", "b"}, []int{0, 1}, 2}}
	if !c.Quick() {
		cfgs = append(cfgs, mc{[]string{"p", "q"}, []string{"a", "b"}, []int{2, 0}, 2},
			mc{[]string{"p"}, []string{"a", "b", "c"}, []int{0, 1, 2}, 2},
			mc{[]string{"p", "q", "r"}, []string{"a"}, []int{1}, 2})
	}
	for i, m := range cfgs {
		dir := c.sub(fmt.Sprintf("mctracer%d", i))
		mod, cfg := mcTracer(m.senders, m.subs, m.caps, m.nmsg)
		os.WriteFile(filepath.Join(dir, "MCTracer.tla"), []byte(mod), 0o644)
		res, err := RunTLC(dir, "MCTracer", cfg, TLCOpts{Workers: 12, Timeout: 20 * time.Minute})
		if err != nil {
			c.Infraf("Tracer.tla model checking: %v", err)
			continue
		}
		if res.Violated != "" {
			c.Infraf("Tracer.tla violates %s (design-level counterexample, see TLC output):\n%s", res.Violated, tail(res.Out, 1500))
			continue
		}
		c.States += res.Distinct
		c.Transitions += res.Generated
	}
	// (2) recorded runs of the real tracer validated against TracerTrace
	n := 240
	if !c.Quick() {
		n = 3000
	}
	rng := rand.New(rand.NewSource(c.Seed))
	job := &Job{Opts: JobOpts{Mode: "tracer", Perturb: 9, Seed: c.Seed,
		HoldPoints: []string{"tracer.take", "tracer.deliver", "tracer.subscribe"}}}
	for i := 0; i < n; i++ {
		sc := drive.TracerScenario{Senders: 1 + rng.Intn(8), NMsg: 1 + rng.Intn(6), Cancel: rng.Intn(2) == 0, CancelAt: -1, Seed: c.Seed*100000 + int64(i)}
		total := sc.Senders * sc.NMsg
		if sc.Cancel && rng.Intn(2) == 0 {
			sc.CancelAt = rng.Intn(total + 1) // cancelled while senders are still active
		}
		ns := 1 + rng.Intn(4)
		for k := 0; k < ns; k++ {
			sc.Caps = append(sc.Caps, []int{0, 0, 1, 2, 10, 64}[rng.Intn(6)])
			join := 0
			if rng.Intn(2) == 0 {
				join = rng.Intn(total + 1)
			}
			leave := -1
			if rng.Intn(2) == 0 {
				leave = join + rng.Intn(total-join+1)
			}
			sc.JoinAt = append(sc.JoinAt, join)
			sc.LeaveAt = append(sc.LeaveAt, leave)
			sc.SlowUs = append(sc.SlowUs, []int{0, 0, 50, 400}[rng.Intn(4)])
		}
		job.Tracer = append(job.Tracer, sc)
		job.Schedules = append(job.Schedules, drive.Schedule{})
	}
	raw, err := ReplayAllRaw(c.sub("tracer-runs"), job, c.Workers)
	if err != nil {
		c.Infraf("tracer runs: %v", err)
	}
	dir := c.sub("tracer-validate")
	traceFile := filepath.Join(dir, "trace.ndjson")
	f, _ := os.Create(traceFile)
	enc := json.NewEncoder(f)
	lines := 0
	idx := make([]int, 0, len(raw))
	for r := range raw {
		idx = append(idx, r)
	}
	sort.Ints(idx)
	for _, r := range idx {
		for _, rec := range raw[r].TLog {
			rec.Run = r
			enc.Encode(rec)
			lines++
		}
	}
	f.Close()
	acc, fails, res, err := c.runTraceSpec(dir, "TracerTrace", "", traceFile, lines)
	if err != nil {
		c.Infraf("tracer validation: %v", err)
	} else {
		c.States += res.Distinct
		c.Transitions += res.Generated
		c.TracesValidated += len(idx)
		c.Evaluations += len(idx)
		for _, r := range idx {
			if !acc[r] {
				fl := fails[r]
				c.Reject(fs, Rejection{Prop: "C09", Tags: []string{"tracer"}, Ev: fl.Ev, Node: fl.Node,
					Detail: fmt.Sprintf("tracer run rejected at record %s %s", fl.Ev, fl.Node)},
					map[string]any{"scenario": job.Tracer[r], "log": raw[r].TLog})
			}
		}
		if len(idx) > 0 {
			c.Samples = append(c.Samples, map[string]any{"scenario": job.Tracer[idx[0]], "records": len(raw[idx[0]].TLog)})
		}
	}
	// (3) causality grammar of engine runs, two simultaneous subscribers
	np := 40
	if !c.Quick() {
		np = 300
	}
	var ps []*prog.Program
	for i := 0; i < np; i++ {
		ft := gen.Features{Xor: true, And: true, Or: i%3 == 0, Loop: i%4 == 1, CondFlow: i%5 == 2, Sub: i%2 == 0,
			EndInBranch: i%6 == 4, MaxDepth: 3 + i%2, MaxSize: 4 + i%6, MaxBranch: 2 + i%2}
		ps = append(ps, gen.Random(fmt.Sprintf("c09_%d_%d", c.Seed, i), c.Seed*1000+int64(i), ft))
	}
	// (a token whose own sequence flow is not taken ends after the flow trace it sends)
	ps = append(ps, gen.ForkAtTheEdgeShapes()...)
	ps = append(ps, gen.OrWithInnerFork("taskfirstfalse", true))
	c.grammarRound(fs, ps, "grammar")
	// the same programs with every flow held just before it sends the flow trace that announces
	// the flows it forks: a forked flow must not be heard of before that trace
	c.grammarRoundOpts(fs, ps[len(ps)/2:], "grammar-announce", JobOpts{Auto: true, Perturb: 3, Seed: c.Seed, Sub2: true, HoldPoints: []string{"flow.flowtrace"}})
	return c.Finish("model_checking", "Tracer.tla (code-shaped model of the tracer goroutine, senders, subscribers joining/leaving, bounded buffers, termination) checked exhaustively by TLC for small constants (contiguity, nothing missed, sender order, close-once, no deadlock, eventual quiescence); recorded runs of the real tracer (1..8 senders, 1..4 subscribers, buffers 0..64, join/leave at random points, slow consumers, cancellation) validated against TracerTrace with the global order taken from the tracer.take hook; causality grammar (TraceGrammar) validated on full engine runs with two simultaneous subscribers", false, fs)
}

// grammarRound runs programs with random answering and validates the full
// recorded streams against TraceGrammar.
func (c *Ctx) grammarRound(fs []Finding, ps []*prog.Program, label string) {
	c.grammarRoundOpts(fs, ps, label, JobOpts{Auto: true, Perturb: 9, Seed: c.Seed, Sub2: true})
}

func (c *Ctx) grammarRoundOpts(fs []Finding, ps []*prog.Program, label string, jo JobOpts) {
	job := &Job{Programs: ps, Opts: jo}
	for i := range ps {
		for k := 0; k < 3; k++ {
			job.Schedules = append(job.Schedules, drive.Schedule{Prog: i})
		}
	}
	runs, err := ReplayAll(c.sub("replay-"+label), job, c.Workers*2)
	if err != nil {
		c.Infraf("%s replay: %v", label, err)
		return
	}
	all := func(p *prog.Program, log []drive.Rec) []drive.Rec { return log }
	progOf := func(r int) int { return job.Schedules[r].Prog }
	acc, fails, _, err := c.ValidateTrace("TraceGrammar", ps, runs, all, progOf, "")
	if err != nil {
		c.Infraf("%s validate: %v", label, err)
		return
	}
	c.Evaluations += len(runs)
	for r := range runs {
		if !acc[r] {
			fl := fails[r]
			p := ps[progOf(r)]
			c.Reject(fs, Rejection{Prop: c.Prop, Tags: append([]string{"grammar"}, p.Tags...), Ev: fl.Ev, Node: fl.Node,
				Detail: fmt.Sprintf("trace grammar rejected record %s %s", fl.Ev, fl.Node)},
				map[string]any{"program": p, "log": runs[r]})
		}
	}
}
