package check

import (
	"verif/harness/internal/gen"
	"verif/harness/internal/prog"
)

// C06: event-based gateway: exactly one alternative wins, the instance completes.
func C06(c *Ctx) int {
	fs, _ := LoadFindings()
	ps := gen.EventGatewayShapes()
	capN := 80
	if !c.Quick() {
		capN = 1000
	}
	// sequential histories: every non-empty sequence of the competing events up to length 3
	if err := c.TokenGameRound(fs, ps, RoundOpts{Label: "sequential", MaxSteps: 6, MaxPerProg: capN,
		Features: []string{"deliver"}, MaxDeliver: 3,
		Job: JobOpts{Perturb: 9, HoldPoints: []string{"evgw.determined", "evgw.withdraw", "catch.event", "catch.consume", "flow.action", "tracer.take"}}}); err != nil {
		c.Infraf("%v", err)
	}
	// concurrent delivery of 2..3 events from different goroutines (the driver
	// then answers whatever task is requested)
	reps := 10
	if !c.Quick() {
		reps = 60
	}
	if err := c.TokenGameRound(fs, ps, RoundOpts{Label: "concurrent", MaxSteps: 3, MaxPerProg: capN, Reps: reps,
		Features: []string{"deliverc"}, MaxDeliver: 1,
		Job: JobOpts{Perturb: 9, Auto: true, HoldPoints: []string{"evgw.determined", "evgw.withdraw", "catch.event", "catch.consume", "flow.action"}}}); err != nil {
		c.Infraf("%v", err)
	}
	// long histories: the losing events keep being delivered after the determination
	sim := 300
	if !c.Quick() {
		sim = 3000
	}
	if err := c.TokenGameRound(fs, ps, RoundOpts{Label: "late-losers", MaxSteps: 12, Simulate: sim, MaxPerProg: 150,
		Features: []string{"deliver"}, MaxDeliver: 9}); err != nil {
		c.Infraf("%v", err)
	}
	// the winner is determined while the other alternatives are still on their way to their
	// catch events: events delivered as soon as the addressed catch event listens, the
	// alternatives' new flows held at their start
	if err := c.TokenGameRound(fs, ps, RoundOpts{Label: "early-winner", MaxSteps: 5, MaxPerProg: capN / 2,
		Features: []string{"deliver"}, MaxDeliver: 2,
		Job: JobOpts{Perturb: 2, EagerDeliver: true, LingerMs: -1, HoldPoints: []string{"flow.start"}}}); err != nil {
		c.Infraf("%v", err)
	}
	// the gateway activated again within one instance (loop back from the winning branch)
	loop := []*prog.Program{gen.EventGatewayLoop(), gen.EventGatewayLoopKinds("signal", "message"), gen.EventGatewayLoopKinds("message", "message")}
	if err := c.TokenGameRound(fs, loop, RoundOpts{Label: "reentry", MaxSteps: 14, Simulate: sim / 2, MaxPerProg: 80,
		Features: []string{"deliver"}, MaxDeliver: 5,
		Job: JobOpts{Perturb: 9, HoldPoints: []string{"evgw.determined", "evgw.withdraw", "catch.event", "catch.consume", "flow.action"}}}); err != nil {
		c.Infraf("%v", err)
	}
	c.Extra["programs"] = len(ps) + 1
	return c.Finish("model_checking", "event-based gateways with 2..3 alternatives; TLC enumerates every sequence of competing / non-matching events up to length 3 (sequential delivery) and every set of 2..3 events delivered concurrently from different goroutines; replayed with schedule perturbation around determination and withdrawal; TokenGameTrace: exactly one alternative continues once, losers never, later losing events have no effect, the instance completes, every delivery returns", false, fs)
}
