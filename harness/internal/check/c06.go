package check

import (
	"verif/harness/internal/gen"
)

// C06: event-based gateway: exactly one alternative wins, the instance completes.
func C06(c *Ctx) int {
	fs, _ := LoadFindings()
	ps := gen.EventGatewayShapes()
	capN := 80
	if !c.Quick() {
		capN = 1000
	}
	// sequential histories: every non-empty sequence of the competing events up to length 3
	if err := c.TokenGameRound(fs, ps, RoundOpts{Label: "sequential", MaxSteps: 6, MaxPerProg: capN,
		Features: []string{"deliver"}, MaxDeliver: 3,
		Job: JobOpts{Perturb: 9, HoldPoints: []string{"evgw.determined", "evgw.withdraw", "catch.event", "catch.consume", "flow.action", "tracer.take"}}}); err != nil {
		c.Infraf("%v", err)
	}
	// concurrent delivery of 2..3 events from different goroutines (the driver
	// then answers whatever task is requested)
	if err := c.TokenGameRound(fs, ps, RoundOpts{Label: "concurrent", MaxSteps: 3, MaxPerProg: capN,
		Features: []string{"deliverc"}, MaxDeliver: 1,
		Job: JobOpts{Perturb: 9, Auto: true, HoldPoints: []string{"evgw.determined", "evgw.withdraw", "catch.event", "catch.consume", "flow.action"}}}); err != nil {
		c.Infraf("%v", err)
	}
	// long histories: the losing events keep being delivered after the determination
	sim := 300
	if !c.Quick() {
		sim = 3000
	}
	if err := c.TokenGameRound(fs, ps, RoundOpts{Label: "late-losers", MaxSteps: 12, Simulate: sim, MaxPerProg: 150,
		Features: []string{"deliver"}, MaxDeliver: 9}); err != nil {
		c.Infraf("%v", err)
	}
	c.Extra["programs"] = len(ps)
	return c.Finish("model_checking", "event-based gateways with 2..3 alternatives; TLC enumerates every sequence of competing / non-matching events up to length 3 (sequential delivery) and every set of 2..3 events delivered concurrently from different goroutines; replayed with schedule perturbation around determination and withdrawal; TokenGameTrace: exactly one alternative continues once, losers never, later losing events have no effect, the instance completes, every delivery returns", false, fs)
}
