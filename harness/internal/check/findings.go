package check

import (
	"encoding/json"
	"fmt"
	"os"
	"path/filepath"
	"regexp"
	"sort"
	"strings"
	"time"
)

// Finding is one entry of /verif/known_findings.json (committed, never
// written at run time).
type Finding struct {
	Id       string `json:"id"`
	Property string `json:"property"`
	Status   string `json:"status"` // open | fixed
	Commit   string `json:"commit,omitempty"`
	Text     string `json:"text"`
	Match    struct {
		Tags     []string `json:"tags,omitempty"`      // all must be among the rejection's tags
		NotTags  []string `json:"not_tags,omitempty"`  // none may be among the rejection's tags
		Ev       []string `json:"ev,omitempty"`        // failing record kinds
		NodeKind []string `json:"node_kind,omitempty"` // kind of the node named by the failing record
		DetailRe string   `json:"detail_re,omitempty"` // regexp over the rejection detail
		// AsIs: the run must additionally be a behaviour of the AS-IS token game (the recorded
		// deviation and nothing else explains it)
		AsIs bool `json:"as_is,omitempty"`
	} `json:"match"`
}

type Rejection struct {
	Prop     string
	Tags     []string
	Ev       string
	Node     string
	NodeKind string
	Detail   string
	// AsIsAccepted: the run was validated against the as-is game and accepted (nil: not examined)
	AsIsAccepted *bool
}

func LoadFindings() ([]Finding, error) {
	b, err := os.ReadFile(filepath.Join(VerifRoot, "known_findings.json"))
	if err != nil {
		if os.IsNotExist(err) {
			return nil, nil
		}
		return nil, err
	}
	var f struct {
		Findings []Finding `json:"findings"`
	}
	if err := json.Unmarshal(b, &f); err != nil {
		return nil, err
	}
	return f.Findings, nil
}

func has(xs []string, x string) bool {
	for _, y := range xs {
		if y == x {
			return true
		}
	}
	return false
}

// MatchFinding returns the open finding that explains the rejection, if any.
func MatchFinding(fs []Finding, r Rejection) *Finding {
	for i := range fs {
		f := &fs[i]
		if f.Status != "open" || f.Property != r.Prop {
			continue
		}
		ok := true
		for _, t := range f.Match.Tags {
			if !has(r.Tags, t) {
				ok = false
			}
		}
		for _, t := range f.Match.NotTags {
			if has(r.Tags, t) {
				ok = false
			}
		}
		if len(f.Match.Ev) > 0 && !has(f.Match.Ev, r.Ev) {
			ok = false
		}
		if len(f.Match.NodeKind) > 0 && !has(f.Match.NodeKind, r.NodeKind) {
			ok = false
		}
		if ok && f.Match.AsIs && (r.AsIsAccepted == nil || !*r.AsIsAccepted) {
			ok = false
		}
		if ok && f.Match.DetailRe != "" {
			re, err := regexp.Compile(f.Match.DetailRe)
			if err != nil || !re.MatchString(r.Detail) {
				ok = false
			}
		}
		if ok {
			return f
		}
	}
	return nil
}

// Reject classifies one rejection: known finding or violation (with a replay
// file written under /verif/replays).
func (c *Ctx) Reject(fs []Finding, r Rejection, replay any) {
	if f := MatchFinding(fs, r); f != nil {
		c.Known[f.Id]++
		if c.Known[f.Id] == 1 {
			c.Extra["known:"+f.Id] = f.Text
		}
		return
	}
	dir := filepath.Join(OutRoot(), "replays")
	os.MkdirAll(dir, 0o755)
	path := filepath.Join(dir, fmt.Sprintf("%s-%s-s%d-%d.json", c.Prop, c.Tier, c.Seed, len(c.Violations)))
	if len(c.Violations) < 25 {
		WriteJSON(path, map[string]any{"property": c.Prop, "tier": c.Tier, "seed": c.Seed, "rejection": r, "replay": replay})
	}
	c.Violations = append(c.Violations, Violation{Prop: c.Prop, Replay: path, What: fmt.Sprintf("%s at %s(%s %s) tags=%v %s", r.Prop, r.Ev, r.NodeKind, r.Node, r.Tags, r.Detail)})
}

// Finish writes the evidence file and prints the verdict lines; returns the
// exit code.
func (c *Ctx) Finish(level, rule string, exhaustive bool, fs []Finding) int {
	wall := time.Since(c.T0).Seconds()
	cov := map[string]any{
		"states":                        c.States,
		"transitions":                   c.Transitions,
		"traces_validated_against_impl": c.TracesValidated,
		"evaluations":                   c.Evaluations,
		"distinct_nontrivial":           c.Evaluations,
		"rule":                          rule,
		"samples":                       c.Samples,
		"exhaustive":                    exhaustive,
	}
	if dn, ok := c.Extra["distinct_nontrivial"]; ok {
		cov["distinct_nontrivial"] = dn
		delete(c.Extra, "distinct_nontrivial")
	}
	for k, v := range c.Extra {
		cov[k] = v
	}
	if len(c.Known) > 0 {
		cov["known_findings_seen"] = c.Known
	}
	if len(c.Notes) > 0 {
		cov["notes"] = c.Notes
	}
	if len(c.Samples) == 0 {
		cov["samples"] = []any{"(none)"}
	}
	if c.Assumptions == nil {
		c.Assumptions = []string{}
	}
	tier := "quick"
	if c.Tier == "thorough" {
		tier = "thorough"
	}
	ev := map[string]any{
		"property_id": c.Prop,
		"tier":        tier,
		"seed":        c.Seed,
		"level":       level,
		"coverage":    cov,
		"assumptions": c.Assumptions,
		"wall_s":      wall,
		"violations":  len(c.Violations),
	}
	if len(c.Infra) > 0 {
		ev["infrastructure_errors"] = c.Infra
	}
	os.MkdirAll(filepath.Join(OutRoot(), "evidence"), 0o755)
	if err := WriteJSON(filepath.Join(OutRoot(), "evidence", c.Prop+".json"), ev); err != nil {
		fmt.Println("cannot write evidence:", err)
		return 2
	}
	ids := make([]string, 0, len(c.Known))
	for id := range c.Known {
		ids = append(ids, id)
	}
	sort.Strings(ids)
	for _, id := range ids {
		for _, f := range fs {
			if f.Id == id {
				fmt.Printf("KNOWN-FINDING: property=%s %s: %s (seen %d times)\n", f.Property, f.Id, f.Text, c.Known[id])
			}
		}
	}
	for i, v := range c.Violations {
		if i < 25 {
			fmt.Printf("VIOLATION property=%s replay=%s\n", v.Prop, v.Replay)
			fmt.Printf("  %s\n", strings.TrimSpace(v.What))
		}
	}
	if len(c.Violations) > 25 {
		fmt.Printf("  ... and %d more violations\n", len(c.Violations)-25)
	}
	fmt.Printf("%s %s seed=%d: states=%d transitions=%d impl_runs_validated=%d evaluations=%d violations=%d known=%d wall=%.1fs\n",
		c.Prop, tier, c.Seed, c.States, c.Transitions, c.TracesValidated, c.Evaluations, len(c.Violations), len(c.Known), wall)
	if len(c.Violations) > 0 {
		return 1
	}
	if len(c.Infra) > 0 {
		for _, s := range c.Infra {
			fmt.Println("INFRA:", s)
		}
		return 2
	}
	return 0
}
