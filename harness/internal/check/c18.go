package check

import (
	"encoding/json"
	"fmt"
	"os"
	"path/filepath"
	"sort"
	"time"

	"verif/harness/internal/drive"
	"verif/harness/internal/gen"
	"verif/harness/internal/prog"
	"verif/harness/internal/render"
)

func trivialProc(name string) *prog.Program {
	b := prog.NewBuilder(name)
	s := b.AddNode("start", "")
	e := b.AddNode("end", "")
	b.Connect(s, e, prog.Cond{})
	return b.Done()
}

func taskProc(name string, n int) *prog.Program {
	b := prog.NewBuilder(name)
	prev := b.AddNode("start", "")
	for i := 0; i < n; i++ {
		t := b.AddNode("task", "")
		b.Connect(prev, t, prog.Cond{})
		prev = t
	}
	e := b.AddNode("end", "")
	b.Connect(prev, e, prog.Cond{})
	return b.Done()
}

// thrower: start -> task -> throw -> end
func throwProc(name string) (*prog.Program, string) {
	b := prog.NewBuilder(name)
	s := b.AddNode("start", "")
	t := b.AddNode("task", "")
	h := b.AddNode("throw", "")
	b.N(h).Evs = []prog.EvDef{{K: "message", Ref: "M"}}
	e := b.AddNode("end", "")
	b.Connect(s, t, prog.Cond{})
	b.Connect(t, h, prog.Cond{})
	b.Connect(h, e, prog.Cond{})
	return b.Done(), h
}

// catcher: start -> catch(message M) -> task -> end
func catchProc(name string) (*prog.Program, string) {
	b := prog.NewBuilder(name)
	s := b.AddNode("start", "")
	c := b.AddNode("catch", "")
	b.N(c).Evs = []prog.EvDef{{K: "message", Ref: "M"}}
	t := b.AddNode("task", "")
	e := b.AddNode("end", "")
	b.Connect(s, c, prog.Cond{})
	b.Connect(c, t, prog.Cond{})
	b.Connect(t, e, prog.Cond{})
	return b.Done(), c
}

func setScenarios(c *Ctx) ([]drive.SetScenario, []string) {
	var out []drive.SetScenario
	var tags []string
	add := func(tag string, sc drive.SetScenario) {
		for i := range sc.Members {
			sc.Members[i].P = render.Prefixed(sc.Members[i].P, fmt.Sprintf("P%d_", i))
		}
		out = append(out, sc)
		tags = append(tags, tag)
	}
	waitsVariants := [][][]int{{{2000}}, {{2000}, {2000}}, {{2000, 2000, 2000}}, {{1}, {2000}}, {{1, 2000}, {2000}}}
	reps := 2
	if !c.Quick() {
		reps = 12
	}
	for r := 0; r < reps; r++ {
		for k := 1; k <= 3; k++ {
			for wi, w := range waitsVariants {
				var ms []render.SetMember
				for i := 0; i < k; i++ {
					ms = append(ms, render.SetMember{P: trivialProc(fmt.Sprintf("triv%d", i)), Exec: true})
				}
				add(fmt.Sprintf("trivial%d-waits%d", k, wi), drive.SetScenario{Members: ms, Waits: w})
				var ts []render.SetMember
				for i := 0; i < k; i++ {
					ts = append(ts, render.SetMember{P: taskProc(fmt.Sprintf("tasks%d", i), 1+i), Exec: true})
				}
				add(fmt.Sprintf("tasks%d-waits%d", k, wi), drive.SetScenario{Members: ts, Waits: w})
			}
		}
		// waits issued while task requests are outstanding must be false
		for k := 1; k <= 2; k++ {
			var hs []render.SetMember
			for i := 0; i < k; i++ {
				hs = append(hs, render.SetMember{P: taskProc(fmt.Sprintf("held%d", i), 1), Exec: true})
			}
			add(fmt.Sprintf("held%d", k), drive.SetScenario{Members: hs, HoldMs: 120, Waits: [][]int{{40}, {40, 40}, {3000}}})
		}
		// different lifetimes: one process finishes at once, the other waits for its answer: a wait
		// issued meanwhile must be false
		add("mixed-lifetimes", drive.SetScenario{Members: []render.SetMember{
			{P: trivialProc("quick"), Exec: true}, {P: taskProc("slow", 1), Exec: true}}, HoldMs: 150, Waits: [][]int{{50}, {3000}}})
		add("mixed-lifetimes3", drive.SetScenario{Members: []render.SetMember{
			{P: taskProc("one", 1), Exec: true}, {P: trivialProc("quick"), Exec: true}, {P: taskProc("three", 3), Exec: true}}, HoldMs: 60, Waits: [][]int{{90}, {3000}}})
		// many callers already blocked in WaitUntilComplete when the last process completes
		{
			w := make([]int, 48)
			for i := range w {
				w[i] = 3000
			}
			for k := 0; k < 250; k++ {
				add("many-waiters", drive.SetScenario{Members: []render.SetMember{{P: taskProc("held", 1), Exec: true}}, HoldMs: 25, Waits: [][]int{w}})
			}
		}
		// two message flows instantiating two waiting processes that live differently long, next
		// to a further executable process
		{
			th1, h1 := throwProc("thrower1")
			th2, h2 := throwProc("thrower2")
			w1 := taskProc("waiting1", 1)
			w2 := taskProc("waiting2", 3)
			ex := taskProc("bystander", 1)
			sc := drive.SetScenario{Members: []render.SetMember{{P: th1, Exec: true}, {P: th2, Exec: true}, {P: ex, Exec: true}, {P: w1, Exec: false}, {P: w2, Exec: false}},
				HoldMs: 40, Waits: [][]int{{130}, {3000}}}
			sc.Flows = []render.MsgFlow{{Src: "P0_" + h1, Dst: "P3_" + w1.Nodes[0].Id}, {Src: "P1_" + h2, Dst: "P4_" + w2.Nodes[0].Id}}
			add("msgflow-two-starts", sc)
		}
		// C01 programs side by side
		var ms []render.SetMember
		for i := 0; i < 2; i++ {
			ft := gen.Features{And: true, MaxDepth: 3, MaxSize: 4 + i, MaxBranch: 3} // no data-dependent gateways: a set shares no initial variables with its members here
			ms = append(ms, render.SetMember{P: gen.Random(fmt.Sprintf("c18r%d_%d", r, i), c.Seed*100+int64(r*7+i), ft), Exec: true})
		}
		add("c01-programs", drive.SetScenario{Members: ms, Waits: [][]int{{3000}}})
		// message flow instantiating a waiting process
		th, h := throwProc("thrower")
		wp := taskProc("waiting", 1)
		sc := drive.SetScenario{Members: []render.SetMember{{P: th, Exec: true}, {P: wp, Exec: false}}, Waits: [][]int{{3000}}}
		sc.Flows = []render.MsgFlow{{Src: "P0_" + h, Dst: "P1_" + wp.Nodes[0].Id}}
		add("msgflow-start", sc)
		// the same, polled: many short waits while the thrown message is on its way and while the
		// process it instantiates is still running -- none of them may report completion
		{
			th, h := throwProc("thrower")
			wp := taskProc("waiting", 2)
			scp := drive.SetScenario{Members: []render.SetMember{{P: th, Exec: true}, {P: wp, Exec: false}}, HoldMs: 8, PollMs: 14, Waits: [][]int{{3000}}}
			scp.Flows = []render.MsgFlow{{Src: "P0_" + h, Dst: "P1_" + wp.Nodes[0].Id}}
			for k := 0; k < 12; k++ {
				add("msgflow-start-polled", scp)
			}
			// ... and with a thrower that is over at once (start -> throw -> end)
			{
				tb := prog.NewBuilder("thrower0")
				ts := tb.AddNode("start", "")
				thn := tb.AddNode("throw", "")
				tb.N(thn).Evs = []prog.EvDef{{K: "message", Ref: "M"}}
				te := tb.AddNode("end", "")
				tb.Connect(ts, thn, prog.Cond{})
				tb.Connect(thn, te, prog.Cond{})
				wp2 := taskProc("waiting", 2)
				sc0 := drive.SetScenario{Members: []render.SetMember{{P: tb.Done(), Exec: true}, {P: wp2, Exec: false}}, HoldMs: 10, PollMs: 6, Waits: [][]int{{3000}}}
				sc0.Flows = []render.MsgFlow{{Src: "P0_" + thn, Dst: "P1_" + wp2.Nodes[0].Id}}
				for k := 0; k < 12; k++ {
					add("msgflow-start-polled0", sc0)
				}
			}
		}
		// message flow waking a catch event of another executable process
		th2, h2 := throwProc("thrower")
		cp, cid := catchProc("catcher")
		sc2 := drive.SetScenario{Members: []render.SetMember{{P: th2, Exec: true}, {P: cp, Exec: true}}, Waits: [][]int{{3000}}}
		sc2.Flows = []render.MsgFlow{{Src: "P0_" + h2, Dst: "P1_" + cid}}
		add("msgflow-catch", sc2)
		// a throw event that is not the source of any message flow, next to one that is: the
		// set completes all the same
		{
			th, hLinked := throwProc("linked")
			un, _ := throwProc("unlinked")
			wp := taskProc("waiting", 1)
			sc := drive.SetScenario{Members: []render.SetMember{{P: th, Exec: true}, {P: un, Exec: true}, {P: wp, Exec: false}}, Waits: [][]int{{3000}}}
			sc.Flows = []render.MsgFlow{{Src: "P0_" + hLinked, Dst: "P2_" + wp.Nodes[0].Id}}
			add("unlinked-throw", sc)
		}
		// two processes use the same variable name: one stores it as a task result, the other
		// decides on it later -- each process has its own variables, the reader sees its own value
		{
			wb := prog.NewBuilder("writer")
			ws := wb.AddNode("start", "")
			wt := wb.AddNode("task", "")
			wb.N(wt).Writes = []string{"x"}
			wb.P.Dom["x"] = []int{0, 7}
			wb.P.Vars0["x"] = 0
			we := wb.AddNode("end", "")
			wb.Connect(ws, wt, prog.Cond{})
			wb.Connect(wt, we, prog.Cond{})
			rb := prog.NewBuilder("reader")
			rs := rb.AddNode("start", "")
			r1 := rb.AddNode("task", "")
			r2 := rb.AddNode("task", "")
			rx := rb.AddNode("xor", "")
			hit := rb.AddNode("task", "")
			miss := rb.AddNode("task", "")
			re1 := rb.AddNode("end", "")
			re2 := rb.AddNode("end", "")
			rb.P.Dom["x"] = []int{0, 7}
			rb.P.Vars0["x"] = 0
			rb.Connect(rs, r1, prog.Cond{})
			rb.Connect(r1, r2, prog.Cond{})
			rb.Connect(r2, rx, prog.Cond{})
			rb.Connect(rx, hit, prog.Cond{K: "eq", V: "x", C: 7})
			rb.N(rx).Default = rb.Connect(rx, miss, prog.Cond{})
			rb.Connect(hit, re1, prog.Cond{})
			rb.Connect(miss, re2, prog.Cond{})
			add("same-variable-name", drive.SetScenario{Members: []render.SetMember{{P: wb.Done(), Exec: true}, {P: rb.Done(), Exec: true}}, Waits: [][]int{{3000}}})
		}
		// two throws (one token through two throw events) addressed to ONE catch event: the first
		// wakes it, the second finds nothing listening and is dropped; the set completes
		{
			b := prog.NewBuilder("thrower2x")
			s0 := b.AddNode("start", "")
			t0 := b.AddNode("task", "")
			ha := b.AddNode("throw", "")
			b.N(ha).Evs = []prog.EvDef{{K: "message", Ref: "M"}}
			hb := b.AddNode("throw", "")
			b.N(hb).Evs = []prog.EvDef{{K: "message", Ref: "M"}}
			e0 := b.AddNode("end", "")
			b.Connect(s0, t0, prog.Cond{})
			b.Connect(t0, ha, prog.Cond{})
			b.Connect(ha, hb, prog.Cond{})
			b.Connect(hb, e0, prog.Cond{})
			cp2, cid2 := catchProc("catcher")
			sc3 := drive.SetScenario{Members: []render.SetMember{{P: b.Done(), Exec: true}, {P: cp2, Exec: true}}, Waits: [][]int{{3000}, {3000}}}
			sc3.Flows = []render.MsgFlow{{Src: "P0_" + ha, Dst: "P1_" + cid2}, {Src: "P0_" + hb, Dst: "P1_" + cid2}}
			add("msgflow-catch-twice", sc3)
		}
	}
	return out, tags
}

// C18: process set.
func C18(c *Ctx) int {
	fs, _ := LoadFindings()
	// (1) the design: ProcessSet.tla with the structure of the code as it is now
	dir := c.sub("pset")
	for _, v := range [][2]string{{"TRUE", "TRUE"}, {"FALSE", "FALSE"}} {
		cfg := fmt.Sprintf("SPECIFICATION Spec\nCONSTANTS\n  Procs = {\"p\", \"q\", \"r\"}\n  Waiters = {\"w1\", \"w2\"}\n  SubscribeFirst = %s\n  CloseOnce = %s\nINVARIANTS NoPanic TrueOnlyWhenAllCeased AtMostOneCeaseSet\nPROPERTIES WatchersFinish\nCHECK_DEADLOCK FALSE\n", v[0], v[1])
		res, err := RunTLC(c.sub("pset"+v[0]), "ProcessSet", cfg, TLCOpts{Workers: 8, Timeout: 10 * time.Minute})
		if err != nil {
			c.Infraf("ProcessSet.tla: %v", err)
			continue
		}
		if v[0] == "TRUE" {
			if res.Violated != "" {
				c.Infraf("ProcessSet.tla (repaired structure) violates %s", res.Violated)
			}
			c.States += res.Distinct
			c.Transitions += res.Generated
		} else {
			c.Extra["pinned_structure_counterexample_found_by_TLC"] = res.Violated
		}
	}
	// (2) recorded runs of real process sets
	scs, tags := setScenarios(c)
	job := &Job{Opts: JobOpts{Mode: "set", Seed: c.Seed, TMs: 5000, Perturb: 9,
		HoldPoints: []string{"pset.watch.subscribe", "pset.run.done", "process.monitor.cease", "flow.start", "tracer.take"}}, Sets: scs}
	for range scs {
		job.Schedules = append(job.Schedules, drive.Schedule{})
	}
	raw, err := ReplayAllRaw(c.sub("set-runs"), job, c.Workers)
	if err != nil {
		c.Infraf("set runs: %v", err)
	}
	c.Evaluations += len(raw)
	// member streams -> TokenGameTrace ; set streams -> ProcessSetTrace
	var progs []*prog.Program
	memberRuns := map[int][]drive.Rec{}
	progIdx := map[int]int{}
	setFile := filepath.Join(dir, "set.ndjson")
	sf, _ := os.Create(setFile)
	enc := json.NewEncoder(sf)
	setLines := 0
	idx := make([]int, 0, len(raw))
	for r := range raw {
		idx = append(idx, r)
	}
	sort.Ints(idx)
	for _, r := range idx {
		for mi, m := range scs[r].Members {
			var recs []drive.Rec
			for _, sr := range raw[r].SLog {
				if sr.Proc == mi {
					rec := sr.Rec
					if rec.Ev == "init" {
						rec.N = len(progs)
						rec.Ok = false
					}
					recs = append(recs, rec)
				}
			}
			if len(recs) > 0 {
				id := r*8 + mi
				memberRuns[id] = recs
				progIdx[id] = len(progs)
				progs = append(progs, m.P)
			}
		}
		for _, sr := range raw[r].SLog {
			if sr.Proc == -1 {
				rec := sr.Rec
				rec.Run = r
				enc.Encode(rec)
				setLines++
			}
		}
	}
	sf.Close()
	all := func(p *prog.Program, log []drive.Rec) []drive.Rec { return log }
	if len(progs) > 0 {
		acc, fails, _, err := c.ValidateTrace("TokenGameTrace", progs, memberRuns, all, func(id int) int { return progIdx[id] }, "")
		if err != nil {
			c.Infraf("member validation: %v", err)
		} else {
			for id := range memberRuns {
				if !acc[id] {
					fl := fails[id]
					r := id / 8
					c.Reject(fs, Rejection{Prop: "C18", Tags: []string{"pset", "member", tags[r]}, Ev: fl.Ev, Node: fl.Node,
						Detail: fmt.Sprintf("member process %d of scenario %s rejected at %s %s", id%8, tags[r], fl.Ev, fl.Node)},
						map[string]any{"scenario": scs[r], "log": raw[r].SLog})
				}
			}
		}
	}
	acc, fails, res, err := c.runTraceSpec(dir, "ProcessSetTrace", "", setFile, setLines)
	if err != nil {
		c.Infraf("set validation: %v", err)
	} else {
		c.States += res.Distinct
		c.Transitions += res.Generated
		c.TracesValidated += len(idx)
		for _, r := range idx {
			if !acc[r] {
				fl := fails[r]
				det := ""
				for _, sr := range raw[r].SLog {
					if sr.Proc == -1 && (sr.Ev == "setwait" || sr.Ev == "crash" || sr.Ev == "ceaseset" || sr.Ev == "started") {
						det += fmt.Sprintf("%s(%v,%d,%s) ", sr.Ev, sr.Ok, sr.N, sr.Kind)
					}
				}
				c.Reject(fs, Rejection{Prop: "C18", Tags: []string{"pset", "set", tags[r]}, Ev: fl.Ev, Node: fl.Node,
					Detail: fmt.Sprintf("scenario %s rejected at %s; %s", tags[r], fl.Ev, det)},
					map[string]any{"scenario": scs[r], "log": raw[r].SLog})
			}
		}
	}
	if len(scs) > 0 {
		c.Samples = append(c.Samples, map[string]any{"scenario": tags[0], "waits": scs[0].Waits, "members": len(scs[0].Members)})
	}
	c.Extra["scenarios"] = len(scs)
	return c.Finish("model_checking", "ProcessSet.tla (code-shaped: StartAll, per-process watcher subscription, wait helpers, close of the done channel, run loop) model-checked for 3 processes x 2 waiters in the structure the code has now (and in the pinned structure, where TLC's counterexample is recorded); recorded runs of real process sets (1..3 trivial / task / C01 processes, repeated, concurrent and timed-out-then-repeated waits, a message flow instantiating a waiting process, a message flow waking a catch event) split into member streams validated by TokenGameTrace ('each behaves as it would alone') and a set stream validated by ProcessSetTrace", false, fs)
}
