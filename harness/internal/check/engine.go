package check

import (
	"fmt"
	"math/rand"
	"os"
	"sort"
	"strings"

	"verif/harness/internal/drive"
	"verif/harness/internal/prog"
)

// RoundOpts parameterises one export / replay / validate round.
type RoundOpts struct {
	Label        string
	ExportModule string // default TokenGameExport
	TraceModule  string // default TokenGameTrace
	MaxSteps     int
	MaxPerProg   int      // cap on schedules per program (seeded sample), 0 = all
	Features     []string // export features: err again conc wait concwait
	MaxRetry     int
	MaxWaits     int
	MaxDeliver   int
	Simulate     int // > 0: TLC random simulation with that many behaviours instead of exhaustive enumeration
	Reps         int // > 1: every schedule is executed that many times (each with its own perturbation policy)
	Job          JobOpts
	Invariants   []string
	ExtraCfg     string
	ExtraTags    func(p *prog.Program, s *drive.Schedule) []string
	NodeRole     func(p *prog.Program, node string) string // role of the node named by the failing record (tag "failnode:<role>")
	Filter       func(*prog.Program, []drive.Rec) []drive.Rec
}

// timeDependent reports whether a rejection at this record kind can be
// caused by slowness alone (and therefore must be confirmed by a re-run).
func timeDependent(ev string) bool {
	switch ev {
	case "fin", "wait", "blocked", "started", "timeout", "census", "postdeliver":
		return true
	}
	return false
}

// TokenGameRound: TLC enumerates schedules for ps, the real engine replays
// them, TLC validates the recorded runs; rejections are classified.
func (c *Ctx) TokenGameRound(fs []Finding, ps []*prog.Program, o RoundOpts) error {
	// experiments only (registered commands never set it): run the named rounds alone
	if only := os.Getenv("VERIF_ROUNDS"); only != "" {
		found := false
		for _, l := range strings.Split(only, ",") {
			found = found || l == o.Label
		}
		if !found {
			return nil
		}
	}
	if o.ExportModule == "" {
		o.ExportModule = "TokenGameExport"
	}
	if o.TraceModule == "" {
		o.TraceModule = "TokenGameTrace"
	}
	if o.Filter == nil {
		o.Filter = drive.FilterTG
	}
	if o.Invariants == nil {
		o.Invariants = []string{"XNoDeadToken", "XCeaseIffDone", "XReqOnce"}
	}
	feat := "{"
	for i, f := range o.Features {
		if i > 0 {
			feat += ", "
		}
		feat += fmt.Sprintf("%q", f)
	}
	feat += "}"
	o.ExtraCfg += fmt.Sprintf("\n  Features = %s\n  MaxRetry = %d\n  MaxWaits = %d\n  MaxDeliver = %d\n", feat, o.MaxRetry, o.MaxWaits, o.MaxDeliver)
	scheds, _, err := c.ExportSchedules(o.ExportModule, ps, o.MaxSteps, o.ExtraCfg, o.Invariants, o.Simulate)
	if err != nil {
		return fmt.Errorf("%s export: %w", o.Label, err)
	}
	if o.MaxPerProg > 0 {
		scheds = capPerProg(scheds, o.MaxPerProg, c.Seed)
	}
	if len(scheds) == 0 {
		return fmt.Errorf("%s: TLC exported no schedule", o.Label)
	}
	if o.Reps > 1 {
		base := scheds
		for k := 1; k < o.Reps; k++ {
			scheds = append(scheds, base...)
		}
	}
	tagCount := map[string]int{}
	for _, p := range ps {
		for _, t := range p.Tags {
			tagCount[t]++
		}
	}
	c.Extra["program_tags:"+o.Label] = tagCount
	c.Extra["schedules:"+o.Label] = len(scheds)
	job := &Job{Programs: ps, Schedules: scheds, Opts: o.Job}
	if job.Opts.Perturb == 0 {
		job.Opts.Perturb = 9
	}
	if job.Opts.Seed == 0 {
		job.Opts.Seed = c.Seed
	}
	runs, err := ReplayAll(c.sub("replay-"+o.Label), job, c.Workers*2)
	if err != nil {
		return fmt.Errorf("%s replay: %w", o.Label, err)
	}
	c.Evaluations += len(runs)
	if len(runs) != len(scheds) {
		c.Infraf("%s: %d of %d runs produced no log", o.Label, len(scheds)-len(runs), len(scheds))
	}
	progOf := func(r int) int { return scheds[r].Prog }
	for r, log := range runs {
		for _, rec := range log {
			if rec.Ev == "infra" {
				c.Infraf("%s run %d: %s", o.Label, r, rec.Kind)
				delete(runs, r)
				break
			}
		}
	}
	acc, fails, _, err := c.ValidateTrace(o.TraceModule, ps, runs, o.Filter, progOf, "")
	if err != nil {
		return fmt.Errorf("%s validate: %w", o.Label, err)
	}
	// sample for the evidence
	if len(c.Samples) < 3 {
		for r, log := range runs {
			if acc[r] {
				c.Samples = append(c.Samples, map[string]any{"round": o.Label, "program": ps[progOf(r)].Name,
					"schedule": scheds[r].Steps, "observed": summarise(o.Filter(ps[progOf(r)], log))})
				break
			}
		}
	}
	var rejected []int
	for r := range runs {
		if !acc[r] {
			rejected = append(rejected, r)
		}
	}
	sort.Ints(rejected)
	// rejected runs of programs with boundary events: are they at least behaviours of the
	// AS-IS game (the recorded deviations F10.. and nothing else)?
	asisAcc := map[int]bool{}
	asisSeen := map[int]bool{}
	asisPass := func(set map[int][]drive.Rec, prog func(int) int) {
		sub := map[int][]drive.Rec{}
		for r, log := range set {
			if ps[prog(r)].HasTag("boundary") {
				sub[r] = log
			}
		}
		if len(sub) == 0 {
			return
		}
		c.AsIs = true
		a, _, _, err := c.ValidateTrace(o.TraceModule, ps, sub, o.Filter, prog, "")
		c.AsIs = false
		if err != nil {
			c.Infraf("%s as-is validation: %v", o.Label, err)
			return
		}
		for r := range sub {
			asisSeen[r] = true
			asisAcc[r] = a[r]
		}
	}
	{
		rej := map[int][]drive.Rec{}
		for _, r := range rejected {
			rej[r] = runs[r]
		}
		asisPass(rej, progOf)
	}
	// confirmation pass for time-dependent rejections
	// Time-dependent rejections are re-run slowly before they count.  The
	// re-run set is capped (a tree on which many runs hang would otherwise
	// take hours): candidates that no known finding explains come first, one
	// per program before a second of the same program.
	mkRej := func(r int) Rejection {
		f := fails[r]
		p := ps[progOf(r)]
		tags := append([]string{}, p.Tags...)
		if o.ExtraTags != nil {
			tags = append(tags, o.ExtraTags(p, &scheds[r])...)
		}
		kind := ""
		if n := p.Node(f.Node); n != nil {
			kind = n.Kind
		}
		if o.NodeRole != nil && f.Node != "" {
			if role := o.NodeRole(p, f.Node); role != "" {
				tags = append(tags, "failnode:"+role)
			}
		}
		rej := Rejection{Prop: c.Prop, Tags: tags, Ev: f.Ev, Node: f.Node, NodeKind: kind, Detail: detail(p, o.Filter(p, runs[r]), f)}
		if asisSeen[r] {
			v := asisAcc[r]
			rej.AsIsAccepted = &v
			if !v {
				rej.Detail += "[not even a behaviour of the as-is game] "
			}
		}
		return rej
	}
	var confirm []int
	{
		var fresh, known []int
		for _, r := range rejected {
			if timeDependent(fails[r].Ev) {
				if MatchFinding(fs, mkRej(r)) != nil {
					known = append(known, r)
				} else {
					fresh = append(fresh, r)
				}
			}
		}
		pick := func(xs []int, n int) []int {
			var out, later []int
			seen := map[int]bool{}
			for _, r := range xs {
				if !seen[progOf(r)] {
					seen[progOf(r)] = true
					out = append(out, r)
				} else {
					later = append(later, r)
				}
			}
			out = append(out, later...)
			if len(out) > n {
				out = out[:n]
			}
			return out
		}
		nf, nk := 8, 3
		if !c.Quick() {
			nf, nk = 24, 6
		}
		confirm = append(pick(fresh, nf), pick(known, nk)...)
		if skipped := len(fresh) + len(known) - len(confirm); skipped > 0 {
			c.Notes = append(c.Notes, fmt.Sprintf("%s: %d further time-dependent rejections were not re-run (cap) and are not counted", o.Label, skipped))
		}
	}
	confirmed := map[int]bool{}
	if len(confirm) > 0 {
		cj := &Job{Programs: ps, Opts: job.Opts}
		cj.Opts.TMs = max(job.Opts.TMs, 5000) * 2
		cj.Opts.StuckMs = max(job.Opts.StuckMs, 250) * 4
		for _, r := range confirm {
			cj.Schedules = append(cj.Schedules, scheds[r])
			cj.PolicyRun = append(cj.PolicyRun, r)
		}
		w := c.Workers / 4
		if w < 1 {
			w = 1
		}
		cruns, err := ReplayAll(c.sub("confirm-"+o.Label), cj, w)
		if err != nil {
			return fmt.Errorf("%s confirm replay: %w", o.Label, err)
		}
		cprog := func(r int) int { return cj.Schedules[r].Prog }
		cacc, cfails, _, err := c.ValidateTrace(o.TraceModule, ps, cruns, o.Filter, cprog, "")
		if err != nil {
			return fmt.Errorf("%s confirm validate: %w", o.Label, err)
		}
		unconfirmed := 0
		for i, r := range confirm {
			if _, ran := cruns[i]; ran && !cacc[i] {
				confirmed[r] = true
				runs[r] = cruns[i]
				fails[r] = cfails[i]
				asisPass(map[int][]drive.Rec{r: cruns[i]}, progOf)
			} else {
				unconfirmed++
				if unconfirmed <= 3 {
					dir := OutRoot() + "/replays"
					os.MkdirAll(dir, 0o755)
					WriteJSON(fmt.Sprintf("%s/unconfirmed-%s-%s-s%d-%d.json", dir, c.Prop, o.Label, c.Seed, r), map[string]any{
						"rejection": fails[r], "replay": map[string]any{"program": ps[progOf(r)], "schedule": scheds[r], "log": runs[r]}})
				}
			}
		}
		if unconfirmed > 0 {
			c.Notes = append(c.Notes, fmt.Sprintf("%s: %d time-dependent rejections were not reproduced by a slow re-run and are not counted", o.Label, unconfirmed))
		}
	}
	for _, r := range rejected {
		f := fails[r]
		if timeDependent(f.Ev) && !confirmed[r] {
			continue
		}
		p := ps[progOf(r)]
		rej := mkRej(r)
		if os.Getenv("VERIF_DEBUG") != "" {
			fmt.Fprintf(os.Stderr, "DEBUG %s run %d prog %s ev=%s node=%s asis=%v seen=%v match=%v :: %s\n", o.Label, r, p.Name, f.Ev, f.Node, asisAcc[r], asisSeen[r], MatchFinding(fs, rej) != nil, rej.Detail)
		}
		c.Reject(fs, rej, map[string]any{"round": o.Label, "program": p, "schedule": scheds[r], "log": runs[r], "job": job.Opts})
	}
	return nil
}

func max(a, b int) int {
	if a > b {
		return a
	}
	return b
}

// detail describes the rejection point: the failing record and what preceded it.
func detail(p *prog.Program, flog []drive.Rec, f Failure) string {
	s := ""
	for _, r := range flog {
		switch r.Ev {
		case "timeout":
			s += fmt.Sprintf("timeout(%s%s) ", r.Kind, kindOfKey(p, r.Kind))
		case "blocked":
			s += fmt.Sprintf("blocked(%s) ", r.Kind)
		case "crash":
			s += fmt.Sprintf("crash(%s) ", r.Kind)
		case "fin":
			s += fmt.Sprintf("fin(ok=%v,pending=%d) ", r.Ok, r.N)
		}
	}
	// boundary events that never observed one of their own events in this run
	var unfired []string
	for _, n := range p.Nodes {
		if n.Kind != "boundary" {
			continue
		}
		fired := false
		for _, r := range flog {
			if r.Ev == "observed" && r.Node == n.Id && len(r.Flows) > 0 {
				for _, e := range n.Evs {
					if e.K == r.Kind && e.Ref == r.Flows[0] {
						fired = true
					}
				}
			}
		}
		if !fired {
			unfired = append(unfired, n.Id)
		}
	}
	if len(unfired) > 0 {
		s += fmt.Sprintf("unfired(%s) ", strings.Join(unfired, ","))
	}
	return fmt.Sprintf("rejected at %s %s; %s", f.Ev, f.Node, s)
}

func kindOfKey(p *prog.Program, key string) string {
	for i := 0; i < len(key); i++ {
		if key[i] == ':' {
			if n := p.Node(key[i+1:]); n != nil {
				return "/" + n.Kind
			}
		}
	}
	return ""
}

func summarise(log []drive.Rec) []string {
	var out []string
	for _, r := range log {
		s := r.Ev
		if r.Node != "" {
			s += " " + r.Node
		}
		if r.Ev == "ans" && len(r.Vars) > 0 {
			s += fmt.Sprintf(" %v", r.Vars)
		}
		if r.Ev == "fin" {
			s += fmt.Sprintf(" ok=%v vars=%v", r.Ok, r.Vars)
		}
		out = append(out, s)
	}
	return out
}

func capPerProg(s []drive.Schedule, k int, seed int64) []drive.Schedule {
	by := map[int][]int{}
	for i := range s {
		by[s[i].Prog] = append(by[s[i].Prog], i)
	}
	r := rand.New(rand.NewSource(seed))
	var keep []int
	progs := make([]int, 0, len(by))
	for p := range by {
		progs = append(progs, p)
	}
	sort.Ints(progs)
	for _, p := range progs {
		idx := by[p]
		sort.Ints(idx)
		if len(idx) > k {
			r.Shuffle(len(idx), func(a, b int) { idx[a], idx[b] = idx[b], idx[a] })
			idx = idx[:k]
		}
		keep = append(keep, idx...)
	}
	sort.Ints(keep)
	out := make([]drive.Schedule, 0, len(keep))
	for _, i := range keep {
		out = append(out, s[i])
	}
	return out
}
