package check

import (
	"encoding/json"
	"fmt"
	"os"
	"path/filepath"
	"sort"
	"time"

	"verif/harness/internal/drive"
)

func timerDefs() []drive.TimerDef {
	var ds []drive.TimerDef
	ds = append(ds, drive.TimerDef{Kind: "date", Due: 10, N: 1, End: -1})
	ds = append(ds, drive.TimerDef{Kind: "duration", Due: 10, N: 1, End: -1})
	for _, n := range []int{0, 1, 2, 3, -1} {
		ds = append(ds, drive.TimerDef{Kind: "cycle", Start: 0, Interval: 5, N: n, End: -1})
		ds = append(ds, drive.TimerDef{Kind: "cycle", Start: 10, Interval: 5, N: n, End: -1, HasStart: true})
		ds = append(ds, drive.TimerDef{Kind: "cycle", Start: 0, Interval: 5, N: n, End: 18})
	}
	// instants centuries ahead ("never" sentinels): not reached by any clock reading
	ds = append(ds, drive.TimerDef{Kind: "date", Due: drive.FarA, N: 1, End: -1, Far: true})
	ds = append(ds, drive.TimerDef{Kind: "date", Due: drive.FarB, N: 1, End: -1, Far: true})
	ds = append(ds, drive.TimerDef{Kind: "cycle", Start: 0, Interval: 5, N: 2, End: drive.FarA, Far: true})
	ds = append(ds, drive.TimerDef{Kind: "cycle", Start: 0, Interval: 5, N: -1, End: drive.FarB, Far: true})
	return ds
}

// C13: timers never fire early and fire exactly as often as their definition says.
func C13(c *Ctx) int {
	fs, _ := LoadFindings()
	defs := timerDefs()
	dir := c.sub("timer")
	defFile := filepath.Join(dir, "defs.json")
	b, _ := json.Marshal(defs)
	os.WriteFile(defFile, b, 0o644)
	outFile := filepath.Join(dir, "sched.ndjson")
	// grid around the due times: just before, exactly at, just after, far beyond
	grid := "{4, 5, 6, 9, 10, 11, 14, 15, 16, 17, 18, 19, 20, 25, 60, 1000}"
	maxAdv := 4
	if !c.Quick() {
		maxAdv = 6
		grid = "{4, 5, 9, 10, 11, 15, 17, 18, 20, 25, 60, 1000}"
	}
	cfg := fmt.Sprintf("SPECIFICATION Spec\nCONSTANTS\n  DefFile = %q\n  OutFile = %q\n  Grid = %s\n  MaxAdv = %d\nINVARIANTS NeverEarly OnceOnly CountBound NeverAfterEnd Spaced\nPROPERTIES SilentAfterClose\nCONSTRAINT Record\nPOSTCONDITION Dump\nCHECK_DEADLOCK FALSE\n", defFile, outFile, grid, maxAdv)
	res, err := RunTLC(dir, "Timer", cfg, TLCOpts{Workers: 1, Timeout: 20 * time.Minute})
	if err != nil {
		c.Infraf("Timer.tla: %v", err)
		return c.Finish("model_checking", "timer", false, fs)
	}
	if res.Violated != "" {
		c.Infraf("Timer.tla violates %s (spec-level)", res.Violated)
		return c.Finish("model_checking", "timer", false, fs)
	}
	c.States += res.Distinct
	c.Transitions += res.Generated
	var scheds []drive.TimerSchedule
	ReadNDJSON(outFile, func(line []byte) error {
		var s drive.TimerSchedule
		if err := json.Unmarshal(line, &s); err != nil {
			return err
		}
		scheds = append(scheds, s)
		return nil
	})
	capN := 3000
	if !c.Quick() {
		capN = 40000
	}
	if len(scheds) > capN {
		// seeded, evenly spread sample
		step := len(scheds) / capN
		var keep []drive.TimerSchedule
		for i := int(c.Seed) % step; i < len(scheds) && len(keep) < capN; i += step {
			keep = append(keep, scheds[i])
		}
		c.Notes = append(c.Notes, fmt.Sprintf("TLC enumerated %d clock histories; %d replayed (evenly spread sample)", len(scheds), len(keep)))
		scheds = keep
	}
	// a share of the histories of the relative definitions (a duration, a cycle counted from the
	// timer's creation) is replayed with the timer created 750 ms past a whole second
	{
		var extra []drive.TimerSchedule
		for i, s := range scheds {
			d := defs[s.Def]
			if i%3 == 0 && (d.Kind == "duration" || (d.Kind == "cycle" && !d.HasStart && d.End < 0)) && !d.Far {
				s.SubSec = true
				extra = append(extra, s)
			}
		}
		scheds = append(scheds, extra...)
		c.Extra["subsecond_histories"] = len(extra)
	}
	job := &Job{Opts: JobOpts{Mode: "timer", Seed: c.Seed, TMs: 3000}, TimerDefs: defs, Timer: scheds}
	for range scheds {
		job.Schedules = append(job.Schedules, drive.Schedule{})
	}
	raw, err := ReplayAllRaw(c.sub("timer-runs"), job, c.Workers)
	if err != nil {
		c.Infraf("timer runs: %v", err)
	}
	c.validateTimerRuns(fs, dir, defFile, grid, maxAdv, raw, job, true)
	// the clock jumps while the timer goroutine is still arming (no quiescent stepping for the
	// first change): nothing that becomes due may be lost
	{
		var base []drive.TimerSchedule
		seenDef := map[int]int{}
		for _, s := range scheds {
			// (only definitions with absolute times: a duration, or a cycle without explicit start,
			// counts from "creation time", which is ambiguous when the clock jumps during creation)
			abs := defs[s.Def].Kind == "date" || (defs[s.Def].Kind == "cycle" && defs[s.Def].HasStart)
			if abs && len(s.Steps) > 0 && s.Steps[0].Op == "set" && s.Steps[0].Fires >= 1 && seenDef[s.Def] < 6 {
				seenDef[s.Def]++
				base = append(base, s)
			}
		}
		reps := 500
		if !c.Quick() {
			reps = 2500
		}
		rj := &Job{Opts: JobOpts{Mode: "timer", Seed: c.Seed, TMs: 3000}, TimerDefs: defs}
		for k := 0; k < reps; k++ {
			for i, s := range base {
				s.Race = 1 + (k*7+i)%60
				rj.Timer = append(rj.Timer, s)
				rj.Schedules = append(rj.Schedules, drive.Schedule{})
			}
		}
		if len(rj.Timer) > 0 {
			rraw, err := ReplayAllRaw(c.sub("timer-race-runs"), rj, c.Workers)
			if err != nil {
				c.Infraf("timer race runs: %v", err)
			}
			// (a firing that fails to come although the clock has stopped beyond its due time is
			// not a matter of scheduling: the harness waited 3 s for it; no confirmation re-run)
			c.validateTimerRuns(fs, c.sub("timer-race"), defFile, grid, maxAdv, rraw, rj, false)
			c.Extra["arming_race_runs"] = len(rj.Timer)
		}
	}
	c.timerCatchPart(fs)
	if len(scheds) > 0 {
		c.Samples = append(c.Samples, map[string]any{"definition": defs[scheds[len(scheds)/2].Def], "clock_history": scheds[len(scheds)/2].Steps})
	}
	c.Extra["definitions"] = len(defs)
	return c.Finish("model_checking", "Timer.tla (date / duration / Rn cycle with and without start and end, n in 0..3 and unbounded) model-checked over all clock-advance histories from a grid around the due times (before, exactly at, far beyond) with cancellation at every step; every history exported by TLC and replayed on the real timer against the mock clock (quiescent stepping guided by the model's expected firings); the recorded runs are validated by TimerTrace (never early, exact counts, spacing, end bound, silence after close / cancel); engine clause: TimerCatch.tla enumerates histories {create, arm, advance} of 1..2 instances of one definitions document built through one event-definition-instance builder, each replayed on the real engine (the timer catch event continues exactly once per firing it was listening for, never before the instance's own due time)", true, fs)
}

// timerCatchPart: the engine clause of C13.  TimerCatch.tla enumerates histories of 1..2 instances
// of one definitions document (built through one event-definition-instance builder, one mock
// clock) over {create, arm, advance}; every history is replayed on the real engine and the
// continuations of each instance's timer catch event are compared after every step.
func (c *Ctx) timerCatchPart(fs []Finding) {
	dir := c.sub("timercatch")
	out := filepath.Join(dir, "beh.ndjson")
	maxOps := 5
	if !c.Quick() {
		maxOps = 6
	}
	cfg := fmt.Sprintf("SPECIFICATION Spec\nCONSTANTS\n  OutFile = %q\n  MaxOps = %d\n  Insts = {1, 2}\n  Kinds = {\"duration\", \"date\"}\n  D = 60\n  Steps = {40, 60, 100}\nINVARIANTS NeverEarly AtMostOnce ListenedThenFired OwnTimer\nCONSTRAINT Record\nPOSTCONDITION Dump\nCHECK_DEADLOCK FALSE\n", out, maxOps)
	res, err := RunTLC(dir, "TimerCatch", cfg, TLCOpts{Workers: 1, Timeout: 10 * time.Minute})
	if err != nil {
		c.Infraf("TimerCatch.tla: %v", err)
		return
	}
	if res.Violated != "" {
		c.Infraf("TimerCatch.tla violates %s (spec-level)", res.Violated)
		return
	}
	c.States += res.Distinct
	c.Transitions += res.Generated
	job := &Job{Opts: JobOpts{Mode: "timercatch", Seed: c.Seed, TMs: 3000}}
	n := 0
	ReadNDJSON(out, func(line []byte) error {
		var b drive.TimerCatchBehaviour
		if err := json.Unmarshal(line, &b); err != nil {
			return err
		}
		n++
		if c.Quick() && n%3 != int(c.Seed)%3 {
			return nil
		}
		job.TimerCatch = append(job.TimerCatch, b)
		job.Schedules = append(job.Schedules, drive.Schedule{})
		return nil
	})
	c.Extra["timer_catch_histories"] = n
	raw, err := ReplayAllRaw(c.sub("timercatch-runs"), job, c.Workers)
	if err != nil {
		c.Infraf("timer catch runs: %v", err)
	}
	idx := make([]int, 0, len(raw))
	for r := range raw {
		idx = append(idx, r)
	}
	sort.Ints(idx)
	for _, r := range idx {
		rl := raw[r]
		c.Evaluations++
		if rl.Crash != "" {
			c.Reject(fs, Rejection{Prop: "C13", Tags: []string{"timer", "timer-catch"}, Ev: "crash", Detail: rl.Crash}, map[string]any{"history": job.TimerCatch[r]})
			continue
		}
		if rl.VRes == nil {
			continue
		}
		c.TracesValidated++
		for _, m := range rl.VRes.Mismatches {
			c.Reject(fs, Rejection{Prop: "C13", Tags: []string{"timer", "timer-catch"}, Ev: "mismatch", Detail: m}, map[string]any{"history": job.TimerCatch[r], "mismatch": m})
		}
	}
}

func (c *Ctx) validateTimerRuns(fs []Finding, dir, defFile, grid string, maxAdv int, raw map[int]RunLog, job *Job, confirm bool) {
	traceFile := filepath.Join(dir, "trace.ndjson")
	f, _ := os.Create(traceFile)
	enc := json.NewEncoder(f)
	lines := 0
	idx := make([]int, 0, len(raw))
	for r := range raw {
		idx = append(idx, r)
	}
	sort.Ints(idx)
	for _, r := range idx {
		for _, rec := range raw[r].TmLog {
			rec.Run = r
			enc.Encode(rec)
			lines++
		}
	}
	f.Close()
	consts := fmt.Sprintf("  DefFile = %q\n  Grid = %s\n  MaxAdv = %d\n", defFile, grid, maxAdv)
	acc, fails, res, err := c.runTraceSpec(dir, "TimerTrace", consts, traceFile, lines)
	if err != nil {
		c.Infraf("timer validation: %v", err)
		return
	}
	c.States += res.Distinct
	c.Transitions += res.Generated
	c.TracesValidated += len(idx)
	c.Evaluations += len(idx)
	var rejected []int
	for _, r := range idx {
		if !acc[r] {
			rejected = append(rejected, r)
		}
	}
	if confirm && len(rejected) > 0 {
		// "quiet" rejections depend on the timer goroutine having been scheduled
		// in time: re-run the rejected histories alone with a long bound
		cj := &Job{Opts: job.Opts, TimerDefs: job.TimerDefs}
		cj.Opts.TMs = 10000
		n := len(rejected)
		if n > 12 {
			n = 12
		}
		for _, r := range rejected[:n] {
			cj.Timer = append(cj.Timer, job.Timer[r])
			cj.Schedules = append(cj.Schedules, drive.Schedule{})
		}
		craw, err := ReplayAllRaw(c.sub("timer-confirm"), cj, 2)
		if err != nil {
			c.Infraf("timer confirm: %v", err)
			return
		}
		sub := c.sub("timer-confirm-validate")
		c.validateTimerRuns(fs, sub, defFile, grid, maxAdv, craw, cj, false)
		if len(rejected) > n {
			c.Notes = append(c.Notes, fmt.Sprintf("%d further rejected timer histories were not re-run (cap)", len(rejected)-n))
		}
		return
	}
	for _, r := range rejected {
		fl := fails[r]
		c.Reject(fs, Rejection{Prop: "C13", Tags: []string{"timer", job.TimerDefs[job.Timer[r].Def].Kind}, Ev: fl.Ev,
			Detail: fmt.Sprintf("timer run rejected at record %s (definition %+v)", fl.Ev, job.TimerDefs[job.Timer[r].Def])},
			map[string]any{"definition": job.TimerDefs[job.Timer[r].Def], "schedule": job.Timer[r], "log": raw[r].TmLog})
	}
}
