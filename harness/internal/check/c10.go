package check

import (
	"verif/harness/internal/drive"
	"verif/harness/internal/gen"
	"verif/harness/internal/prog"
)

// C10: boundary events.
func C10(c *Ctx) int {
	fs, _ := LoadFindings()
	ps := gen.BoundaryShapes()
	capN := 40
	if !c.Quick() {
		capN = 400
	}
	tags := func(p *prog.Program, s *drive.Schedule) []string {
		// scenario tags for the known-finding signatures
		var t []string
		nd := map[string]int{}
		answeredHost := false
		deliveredBeforeAnswer := false
		for _, st := range s.Steps {
			if st.Op == "deliver" {
				nd[st.Node]++
				if !answeredHost {
					deliveredBeforeAnswer = true
				}
			}
			if st.Op == "answer" {
				if n := p.Node(st.Node); n != nil {
					for _, m := range p.Nodes {
						if m.Kind == "boundary" && m.Attached == n.Id {
							answeredHost = true
						}
					}
				}
			}
		}
		for _, k := range nd {
			if k > 1 {
				t = append(t, "repeated-event")
			}
		}
		if len(nd) == 0 {
			t = append(t, "no-event")
		}
		if deliveredBeforeAnswer {
			t = append(t, "event-while-waiting-possible")
		}
		return t
	}
	role := func(p *prog.Program, node string) string {
		// downstream of a boundary event: exception path; directly after a host: normal path
		for _, f := range p.Flows {
			if f.Dst != node {
				continue
			}
			src := p.Node(f.Src)
			if src.Kind == "boundary" {
				return "exception-path"
			}
			for _, m := range p.Nodes {
				if m.Kind == "boundary" && m.Attached == src.Id {
					return "normal-path"
				}
			}
		}
		return ""
	}
	if err := c.TokenGameRound(fs, ps, RoundOpts{Label: "boundary", MaxSteps: 7, MaxPerProg: capN,
		Features: []string{"deliver"}, MaxDeliver: 3, ExtraTags: tags, NodeRole: role}); err != nil {
		c.Infraf("%v", err)
	}
	// the answer races the events: the host is answered as soon as its request exists, the
	// boundary listeners' flows are held when they receive their action
	var two []*prog.Program
	for _, p := range ps {
		if p.Name == "bnd_ii" || p.Name == "bnd_in" || p.Name == "bnd_i" {
			two = append(two, p)
		}
	}
	if err := c.TokenGameRound(fs, two, RoundOpts{Label: "racing-answer", MaxSteps: 3, MaxPerProg: 0, Reps: 4,
		Features: []string{"deliver"}, MaxDeliver: 2, ExtraTags: tags, NodeRole: role,
		Job: JobOpts{Perturb: 3, EagerAnswer: true, LingerMs: -1, HoldPoints: []string{"flow.action"}}}); err != nil {
		c.Infraf("%v", err)
	}
	// the host is answered with an error whose handler decides skip / exit (or without a handler):
	// the activity is over then as well, its boundary events no longer react
	{
		var errs []*prog.Program
		for _, p := range ps {
			if p.Name == "bnd_n" || p.Name == "bnd_i" {
				q := *p
				q.Name = p.Name + "_err"
				q.Nodes = append([]prog.Node(nil), p.Nodes...)
				for i := range q.Nodes {
					if q.Nodes[i].Kind == "task" {
						q.Nodes[i].Retries = 1
					}
				}
				errs = append(errs, &q)
			}
		}
		if err := c.TokenGameRound(fs, errs, RoundOpts{Label: "after-error", MaxSteps: 5, MaxPerProg: 60,
			Features: []string{"deliver", "err"}, MaxDeliver: 2, MaxRetry: 0, ExtraTags: tags, NodeRole: role}); err != nil {
			c.Infraf("%v", err)
		}
	}
	c.Extra["programs"] = len(ps)
	return c.Finish("model_checking", "tasks and sub-processes with 1..2 boundary events of either kind; TLC enumerates interleavings of {event delivered, host answered} including event before activation, repeated events, answer after the event; replay + TokenGameTrace (exception flow once / once per event, normal flow never after an interrupting event, completion after the host finished)", false, fs)
}
