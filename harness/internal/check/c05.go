package check

import (
	"verif/harness/internal/gen"
	"verif/harness/internal/prog"
)

// C05: inclusive gateway fork/join table.
func C05(c *Ctx) int {
	fs, _ := LoadFindings()
	var ps []*prog.Program
	for k := 1; k <= 4; k++ {
		for dpos := -1; dpos <= k; dpos++ {
			total := k
			if dpos >= 0 {
				total++
			}
			for eb := -1; eb < total; eb++ {
				if total == 1 && eb == 0 {
					continue
				}
				if c.Quick() && k == 4 && eb > 0 {
					continue
				}
				ps = append(ps, gen.GatewayTable("or", k, dpos, 1, eb))
			}
		}
	}
	// one activated branch runs straight from the fork to the join (no task on it) while the
	// others are still busy: the join must not release before they arrive, nor twice
	for k := 2; k <= 3; k++ {
		for dpos := -1; dpos <= k; dpos += 2 {
			for _, db := range []int{0, k - 1} {
				gen.DirectBranch = db
				ps = append(ps, gen.GatewayTable("or", k, dpos, 1, -1))
			}
		}
	}
	gen.DirectBranch = -1
	// sentinels of the open findings F6b / F6c
	ps = append(ps, gen.OpenFindingSentinels()...)
	{
		// the random program on which F6b was first seen (C01, seed 1, program 57), generated without steering
		p := gen.Random("c01_1_57", 1057, gen.Features{Xor: true, And: true, Or: true, Loop: true, CondFlow: true, MaxDepth: 4, MaxSize: 7, MaxBranch: 3, NoSteer: true})
		p.Tags = append(p.Tags, "sentinel")
		ps = append(ps, p)
	}
	// a branch of the inclusive fork forks again (parallel block / task with two outgoing flows)
	for _, inner := range []string{"and", "task", "taskfirstfalse", "task2join"} {
		for _, d := range []bool{true, false} {
			ps = append(ps, gen.OrWithInnerFork(inner, d))
		}
	}
	capN := 0
	if c.Quick() {
		capN = 16
	}
	if err := c.TokenGameRound(fs, ps, RoundOpts{Label: "table", MaxSteps: 12, MaxPerProg: capN}); err != nil {
		c.Infraf("%v", err)
	}
	// the same fork/join pairs re-entered through a loop (TLC random simulation of the game)
	var loops []*prog.Program
	for k := 1; k <= 3; k++ {
		for dpos := -1; dpos <= k; dpos += 2 {
			loops = append(loops, gen.GatewayTableLoop("or", k, dpos, 1, -1, true))
			if k >= 2 {
				loops = append(loops, gen.GatewayTableLoop("or", k, dpos, 1, 0, true))
			}
		}
	}
	// ... and with one branch running straight from the fork to the join
	for _, db := range []int{0, 1} {
		gen.DirectBranch = db
		loops = append(loops, gen.GatewayTableLoop("or", 2, -1, 1, -1, true), gen.GatewayTableLoop("or", 2, 2, 1, -1, true))
	}
	gen.DirectBranch = -1
	sim := 500
	if !c.Quick() {
		sim = 5000
	}
	if err := c.TokenGameRound(fs, loops, RoundOpts{Label: "reentry", MaxSteps: 24, Simulate: sim}); err != nil {
		c.Infraf("%v", err)
	}
	// the same loops with every request answered the moment it appears: the join is reached again
	// while the gateways' flow trackers are still digesting the traces of the previous activation
	{
		both := []*prog.Program{gen.OrTightLoop(2), gen.OrTightLoop(3)}
		reps := 400
		if !c.Quick() {
			reps = 4000
		}
		if err := c.TokenGameRound(fs, both, RoundOpts{Label: "reentry-instant", MaxSteps: 1, Reps: reps,
			Job: JobOpts{Instant: true, LingerMs: -1, Perturb: 7, TMs: 3000}}); err != nil {
			c.Infraf("%v", err)
		}
	}
	c.Extra["programs"] = len(ps) + len(loops)
	return c.Finish("model_checking", "inclusive fork/join pairs with 1..4 conditional branches, default absent or at every position, optionally one branch ending before the join; TLC enumerates every truth assignment and every order in which the activated branches finish; replayed on the real engine and validated by TokenGameTrace (join never early, exactly one release per activation, no waiting for non-activated branches, no-flow error)", !c.Quick(), fs)
}
