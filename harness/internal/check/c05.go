package check

import (
	"verif/harness/internal/gen"
	"verif/harness/internal/prog"
)

// C05: inclusive gateway fork/join table.
func C05(c *Ctx) int {
	fs, _ := LoadFindings()
	var ps []*prog.Program
	for k := 1; k <= 4; k++ {
		for dpos := -1; dpos <= k; dpos++ {
			total := k
			if dpos >= 0 {
				total++
			}
			for eb := -1; eb < total; eb++ {
				if total == 1 && eb == 0 {
					continue
				}
				if c.Quick() && k == 4 && eb > 0 {
					continue
				}
				ps = append(ps, gen.GatewayTable("or", k, dpos, 1, eb))
			}
		}
	}
	capN := 0
	if c.Quick() {
		capN = 16
	}
	if err := c.TokenGameRound(fs, ps, RoundOpts{Label: "table", MaxSteps: 12, MaxPerProg: capN}); err != nil {
		c.Infraf("%v", err)
	}
	c.Extra["programs"] = len(ps)
	return c.Finish("model_checking", "inclusive fork/join pairs with 1..4 conditional branches, default absent or at every position, optionally one branch ending before the join; TLC enumerates every truth assignment and every order in which the activated branches finish; replayed on the real engine and validated by TokenGameTrace (join never early, exactly one release per activation, no waiting for non-activated branches, no-flow error)", !c.Quick(), fs)
}
