package check

import (
	"encoding/json"
	"fmt"
	"os"
	"path/filepath"
	"sort"
	"time"

	"verif/harness/internal/drive"
)

// C19: builder output is well-formed, executable and laid out without overlap.
func C19(c *Ctx) int {
	fs, _ := LoadFindings()
	allTypes := `{"task", "serviceTask", "userTask", "scriptTask", "manualTask", "sendTask", "receiveTask", "businessRuleTask", "callActivity", "subProcess"}`
	type mc struct {
		name, types, presets string
		acts, procs          int
		early                int
	}
	runs := []mc{{"single", allTypes, "{TRUE, FALSE}", 2, 1, 0}, {"multi", `{"task", "subProcess"}`, "{FALSE}", 2, 3, 0},
		// the builder is laid out once or twice before the final layout (other configurations, fewer processes)
		{"relayout", `{"task", "subProcess"}`, "{FALSE}", 1, 2, 2}}
	if !c.Quick() {
		runs = append(runs, mc{"single-long", `{"task", "manualTask", "subProcess", "callActivity"}`, "{TRUE, FALSE}", 4, 1, 0},
			mc{"long-chain", `{"task", "subProcess"}`, "{FALSE}", 12, 1, 0})
	}
	job := &Job{Opts: JobOpts{Mode: "builds", Seed: c.Seed}}
	for _, m := range runs {
		dir := c.sub("builder-" + m.name)
		out := filepath.Join(dir, "builds.ndjson")
		mod := "---- MODULE MCB ----\nEXTENDS Builder\nMCConfigs == {[sx |-> 96, sy |-> 96, cg |-> 180, rg |-> 120, pg |-> 180], [sx |-> 0, sy |-> 0, cg |-> 120, rg |-> 120, pg |-> 120], [sx |-> 10, sy |-> 500, cg |-> 60, rg |-> 10, pg |-> 40]}\nMCTypes == " + m.types + "\nMCPresets == " + m.presets + "\n====\n"
		os.WriteFile(filepath.Join(dir, "MCB.tla"), []byte(mod), 0o644)
		cfg := fmt.Sprintf("SPECIFICATION Spec\nCONSTANTS\n  OutFile = %q\n  MaxActs = %d\n  MaxProcs = %d\n  MaxEarly = %d\n  Configs <- MCConfigs\n  TypeSet <- MCTypes\n  PresetSet <- MCPresets\nINVARIANTS NoOverlap EdgesAttach\nCONSTRAINT Record\nPOSTCONDITION Dump\nCHECK_DEADLOCK FALSE\n", out, m.acts, m.procs, m.early)
		res, err := RunTLC(dir, "MCB", cfg, TLCOpts{Workers: 1, Timeout: 20 * time.Minute})
		if err != nil {
			c.Infraf("Builder.tla (%s): %v", m.name, err)
			continue
		}
		if res.Violated != "" {
			c.Infraf("Builder.tla violates %s (spec-level)", res.Violated)
			continue
		}
		c.States += res.Distinct
		c.Transitions += res.Generated
		n := 0
		ReadNDJSON(out, func(line []byte) error {
			var b drive.BuildSpec
			if err := json.Unmarshal(line, &b); err != nil {
				return err
			}
			n++
			if m.name == "long-chain" && len(b.Procs[0].Acts) < 9 {
				return nil
			}
			job.Builds = append(job.Builds, b)
			job.Schedules = append(job.Schedules, drive.Schedule{})
			return nil
		})
		c.Extra["builds:"+m.name] = n
	}
	raw, err := ReplayAllRaw(c.sub("build-runs"), job, c.Workers)
	if err != nil {
		c.Infraf("build runs: %v", err)
	}
	idx := make([]int, 0, len(raw))
	for r := range raw {
		idx = append(idx, r)
	}
	sort.Ints(idx)
	for _, r := range idx {
		rl := raw[r]
		c.Evaluations++
		if rl.Crash != "" {
			c.Reject(fs, Rejection{Prop: "C19", Tags: []string{"builder"}, Ev: "crash", Detail: rl.Crash}, map[string]any{"build": job.Builds[r]})
			continue
		}
		if rl.VRes == nil {
			continue
		}
		c.TracesValidated++
		seen := map[string]bool{}
		for _, m := range rl.VRes.Mismatches {
			if seen[m] {
				continue
			}
			seen[m] = true
			c.Reject(fs, Rejection{Prop: "C19", Tags: []string{"builder"}, Ev: "mismatch", Detail: m}, map[string]any{"build": job.Builds[r], "mismatch": m})
		}
	}
	if len(job.Builds) > 0 {
		c.Samples = append(c.Samples, job.Builds[len(job.Builds)/2])
	}
	return c.Finish("model_checking", "Builder.tla gives the model every build must produce (chain structure, column/row layout with default sizes, process stacking) and TLC checks it for no overlap (when gaps >= node sizes) and edge attachment over all call sequences of the bounded family (all 10 activity types with and without preset ids, 1..3 processes, three layout configurations, 0..2 earlier AutoLayout calls on the same builder with other configurations and fewer processes); every build is exported and replayed on the real ProcessBuilder / DefinitionBuilder / AutoLayout: ids unique, flows listed by both ends, start/end events, activities in insertion order, one shape per node at exactly the specified bounds, one edge per flow attached to its shapes, XML round trip, and the built process run to completion requesting the activities once each in insertion order", true, fs)
}
