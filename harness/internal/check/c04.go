package check

import (
	"verif/harness/internal/gen"
	"verif/harness/internal/prog"
)

// C04: exclusive gateway decision table.
func C04(c *Ctx) int {
	fs, _ := LoadFindings()
	var ps []*prog.Program
	for k := 1; k <= 4; k++ {
		for dpos := -1; dpos <= k; dpos++ {
			for tokens := 1; tokens <= 3; tokens++ {
				if c.Quick() && tokens == 3 && k > 2 {
					continue
				}
				ps = append(ps, gen.GatewayTable("xor", k, dpos, tokens, -1))
			}
		}
	}
	// the same tokens arriving over a single incoming flow (merged in front of the gateway)
	gen.MergedArrival = true
	for k := 1; k <= 3; k++ {
		for dpos := -1; dpos <= k; dpos += 2 {
			for tokens := 2; tokens <= 3; tokens++ {
				ps = append(ps, gen.GatewayTable("xor", k, dpos, tokens, -1))
			}
		}
	}
	gen.MergedArrival = false
	// the same decision tables with the sequenceFlow elements written in reverse document order:
	// "the first, in the order the gateway lists its outgoing flows"
	for k := 2; k <= 3; k++ {
		for dpos := -1; dpos <= k; dpos += 2 {
			p := gen.GatewayTable("xor", k, dpos, 1, -1)
			p.Name += "_rev"
			p.Tags = append(p.Tags, "flows-reversed")
			ps = append(ps, p)
		}
	}
	capN := 0
	if c.Quick() {
		capN = 24
	}
	if err := c.TokenGameRound(fs, ps, RoundOpts{Label: "table-expr", MaxSteps: 12, MaxPerProg: capN}); err != nil {
		c.Infraf("%v", err)
	}
	var loops []*prog.Program
	for k := 1; k <= 3; k++ {
		for dpos := -1; dpos <= k; dpos++ {
			loops = append(loops, gen.GatewayTableLoop("xor", k, dpos, 1, -1, true))
		}
	}
	sim := 400
	if !c.Quick() {
		sim = 4000
	}
	if err := c.TokenGameRound(fs, loops, RoundOpts{Label: "reentry", MaxSteps: 20, Simulate: sim}); err != nil {
		c.Infraf("%v", err)
	}
	// 3..5 tokens reaching the gateway at the same time over one incoming flow
	var bursts []*prog.Program
	gen.MergedArrival, gen.BurstArrival = true, true
	for k := 1; k <= 2; k++ {
		for dpos := -1; dpos <= k; dpos++ {
			for tokens := 3; tokens <= 5; tokens++ {
				bursts = append(bursts, gen.GatewayTable("xor", k, dpos, tokens, -1))
			}
		}
	}
	gen.MergedArrival, gen.BurstArrival = false, false
	if err := c.TokenGameRound(fs, bursts, RoundOpts{Label: "burst", MaxSteps: 8, Simulate: 200, MaxPerProg: 8,
		Job: JobOpts{Perturb: 9, HoldPoints: []string{"xor.report", "flow.action", "flow.flowtrace", "tracer.take"}}}); err != nil {
		c.Infraf("%v", err)
	}
	// level M: two-phase probe, probing table, report-before-second-request reschedule, over every interleaving
	{
		var fam []*prog.Program
		maxK := 2
		if !c.Quick() {
			maxK = 3
		}
		for k := 1; k <= maxK; k++ {
			for _, dpos := range []int{-1, 0, k} {
				for tokens := 1; tokens <= 2; tokens++ {
					fam = append(fam, gen.GatewayTable("xor", k, dpos, tokens, -1))
				}
			}
		}
		gen.MergedArrival, gen.BurstArrival = true, true
		fam = append(fam, gen.GatewayTable("xor", 2, 0, 2, -1), gen.GatewayTable("xor", 1, -1, 2, -1))
		gen.MergedArrival, gen.BurstArrival = false, false
		c.EngineRound(fam, EngineOpts{Label: "exclusive", MaxFlows: 10, NWaiters: 0, RunsPer: 2})
	}
	c.Extra["programs"] = len(ps) + len(loops) + len(bursts)
	return c.Finish("model_checking", "exclusive gateways with 1..4 conditional flows, default absent or at every list position, 1..3 tokens arriving concurrently; TLC enumerates every truth assignment (one decision task writes all condition variables) and every answer order; each schedule replayed on the real engine, validated by TokenGameTrace (branch task requested, no-flow error naming the gateway, independent pass-through)", !c.Quick(), fs)
}
