package check

import (
	"encoding/xml"
	"fmt"
	"os"
	"path/filepath"
	"strings"

	"github.com/olive-io/bpmn/schema"

	"verif/harness/internal/alpha"
	"verif/harness/internal/drive"
	"verif/harness/internal/gen"
	"verif/harness/internal/prog"
)

// C15: XML round trip preserves the definitions model and its execution behaviour.
func C15(c *Ctx) int {
	fs, _ := LoadFindings()
	// (1) generated definitions of every supported kind: behaviour on the re-parsed model
	var ps []*prog.Program
	n := 30
	if !c.Quick() {
		n = 200
	}
	for i := 0; i < n; i++ {
		ft := gen.Features{Xor: true, And: true, Or: i%3 == 0, Loop: i%4 == 1, CondFlow: i%5 == 2, Sub: i%2 == 0, NoDefault: i%7 == 3,
			EndInBranch: i%6 == 4, MaxDepth: 3 + i%2, MaxSize: 4 + i%6, MaxBranch: 2 + i%2,
			EmptyBranch: i%4 == 2, OlderVar: i%3 == 1, Throws: i%5 == 3}
		ps = append(ps, gen.Random(fmt.Sprintf("c15_%d_%d", c.Seed, i), c.Seed*1000+int64(i), ft))
	}
	if err := c.TokenGameRound(fs, ps, RoundOpts{Label: "roundtrip", MaxSteps: 8, MaxPerProg: 4,
		Job: JobOpts{RoundTrip: true, Perturb: 9}}); err != nil {
		c.Infraf("%v", err)
	}
	var evs []*prog.Program
	evs = append(evs, gen.CatchShapes()...)
	evs = append(evs, gen.MultiCatchShapes()...)
	evs = append(evs, gen.EventGatewayShapes()...)
	if err := c.TokenGameRound(fs, evs, RoundOpts{Label: "roundtrip-events", MaxSteps: 6, MaxPerProg: 4,
		Features: []string{"deliver"}, MaxDeliver: 2, Job: JobOpts{RoundTrip: true, Perturb: 9}}); err != nil {
		c.Infraf("%v", err)
	}
	ps = append(ps, evs...)
	// (2) all bundled .bpmn files: structural round trip
	files, _ := filepath.Glob(RepoRoot() + "/testdata/*.bpmn")
	more, _ := filepath.Glob(RepoRoot() + "/examples/*/*.bpmn")
	files = append(files, more...)
	// a parsed model is a value of its own: parsing, serialising and re-parsing OTHER documents
	// (with other or no expression / type languages) afterwards does not change it
	type kept struct {
		name  string
		defs  *schema.Definitions
		print string
	}
	var held []kept
	for _, f := range files {
		b, err := os.ReadFile(f)
		if err != nil {
			continue
		}
		defs, err := schema.Parse(b)
		if err == nil && len(held) < 12 {
			held = append(held, kept{filepath.Base(f), defs, alpha.Print(defs)})
		}
		if err != nil {
			c.Reject(fs, Rejection{Prop: "C15", Tags: []string{"bundled", filepath.Base(f)}, Ev: "parse", Detail: err.Error()}, map[string]any{"file": f})
			continue
		}
		c.Evaluations++
		_, rec := drive.RoundTrip(defs, string(b))
		if !rec.Ok {
			c.Reject(fs, Rejection{Prop: "C15", Tags: []string{"bundled", filepath.Base(f)}, Ev: "roundtrip", Detail: filepath.Base(f) + ": " + rec.Kind},
				map[string]any{"file": f, "differences": rec.Kind})
		}
	}
	for _, k := range held {
		c.Evaluations++
		if now := alpha.Print(k.defs); now != k.print {
			c.Reject(fs, Rejection{Prop: "C15", Tags: []string{"bundled", k.name}, Ev: "roundtrip", Detail: k.name + ": the parsed model changed while other documents were parsed and serialised: " + alpha.FirstDiff(k.print, now)},
				map[string]any{"file": k.name})
		}
	}
	// (3) attribute sensitivity: every boolean / numeric attribute (and plain text attribute) of the
	// bundled models and of two richly rendered generated models is given another value, one at
	// a time; the changed model must survive the round trip as changed (a value that happens to
	// be a default is not written and comes back as the default; a value that is not must not
	// be lost).  TLC does not decide this clause (DESIGN section 10): it is an exhaustive
	// single-attribute enumeration by reflection.
	variants := 0
	perturb := func(name string, src []byte) {
		defs, err := schema.Parse(src)
		if err != nil {
			return
		}
		reported := 0
		variants += alpha.PerturbScalars(defs, true, func(path string) {
			if reported >= 3 {
				return
			}
			out, err := xml.Marshal(defs)
			if err != nil {
				return // a value the marshaller refuses is not a round-trip question
			}
			defs2, err := schema.Parse(out)
			if err != nil {
				return
			}
			c.Evaluations++
			if d := alpha.Diff(defs, defs2, 2); len(d) > 0 {
				reported++
				c.Reject(fs, Rejection{Prop: "C15", Tags: []string{"attribute", name}, Ev: "roundtrip", Detail: name + ": after changing " + path + " the re-parsed model differs: " + strings.Join(d, " ; ")},
					map[string]any{"file": name, "changed": path, "differences": d})
			}
		})
	}
	for _, f := range files {
		if b, err := os.ReadFile(f); err == nil {
			perturb(filepath.Base(f), b)
		}
	}
	// a document rich in olive extension data: headers / properties / results with literal values,
	// with references, and with both
	{
		src := drive.ValueProcessXML()
		if defs, err := schema.Parse([]byte(src)); err == nil {
			c.Evaluations++
			if _, rec := drive.RoundTrip(defs, src); !rec.Ok {
				c.Reject(fs, Rejection{Prop: "C15", Tags: []string{"olive-items"}, Ev: "roundtrip", Detail: "olive items document: " + rec.Kind}, map[string]any{"differences": rec.Kind})
			}
		}
		// (here the empty text attributes are given a value too: an item that has a reference gets
		// a literal value next to it, and so on)
		alpha.PerturbEmptyStrings = true
		perturb("olive-items", []byte(src))
		alpha.PerturbEmptyStrings = false
	}
	c.Extra["attribute_variants"] = variants
	c.Extra["bundled_files"] = len(files)
	c.Extra["programs"] = len(ps)
	return c.Finish("model_checking", "generated definitions (every supported flow-node kind, gateways with defaults at every position, formal and informal conditions, signal/message definitions, olive extensions) are parsed, serialised, re-parsed; the harness compares the models structurally (elements, ids, references, attributes, expression kind, event definitions, extensions, FindBy on every id, serialising does not alter the model) and the instance is run on the RE-PARSED model with TLC-exported schedules; TokenGameTrace validates the run against the ORIGINAL program (behavioural clause); all bundled .bpmn files get the structural round trip", false, fs)
}

var _ = xml.Marshal
var _ = strings.Contains
var _ = alpha.Diff
