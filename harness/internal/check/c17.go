package check

import (
	"fmt"
	"os"
	"path/filepath"
	"regexp"
	"sort"
	"strings"

	"verif/harness/internal/drive"
	"verif/harness/internal/gen"
	"verif/harness/internal/prog"
)

var reRepoFrame = regexp.MustCompile("(" + regexp.QuoteMeta(RepoRoot()) + `/[^\s:]+\.go):(\d+)`)

// raceReports parses the race detector logs: one entry per report, keyed by
// the pair of innermost non-test repository frames of the two accesses.
func raceReports(dir string) map[string]string {
	out := map[string]string{}
	files, _ := filepath.Glob(filepath.Join(dir, "race.*"))
	for _, f := range files {
		b, err := os.ReadFile(f)
		if err != nil {
			continue
		}
		for _, rep := range strings.Split(string(b), "==================") {
			if !strings.Contains(rep, "WARNING: DATA RACE") {
				continue
			}
			// split into access blocks ("Read at", "Write at", "Previous ...")
			var sites []string
			for _, blk := range regexp.MustCompile(`(?m)^(Read at|Write at|Previous read at|Previous write at)`).Split(rep, -1)[1:] {
				m := reRepoFrame.FindAllStringSubmatch(blk, -1)
				site := ""
				for _, x := range m {
					if !strings.HasSuffix(x[1], "_test.go") {
						site = strings.TrimPrefix(x[1], RepoRoot()+"/") + ":" + x[2]
						break
					}
				}
				// stop at the goroutine creation part
				if i := strings.Index(blk, "Goroutine "); i >= 0 {
					m2 := reRepoFrame.FindAllStringSubmatch(blk[:i], -1)
					site = ""
					for _, x := range m2 {
						if !strings.HasSuffix(x[1], "_test.go") {
							site = strings.TrimPrefix(x[1], RepoRoot()+"/") + ":" + x[2]
							break
						}
					}
				}
				if site != "" {
					sites = append(sites, site)
				}
				if len(sites) == 2 {
					break
				}
			}
			if len(sites) == 0 {
				continue // a race entirely outside the repository (harness): not the engine's
			}
			sort.Strings(sites)
			key := strings.Join(sites, " <-> ")
			if _, ok := out[key]; !ok {
				if len(rep) > 2500 {
					rep = rep[:2500]
				}
				out[key] = rep
			}
		}
	}
	return out
}

// C17: no data race and no panic inside the engine under concurrent use.
func C17(c *Ctx) int {
	fs, _ := LoadFindings()
	var ps []*prog.Program
	n := 24
	if !c.Quick() {
		n = 160
	}
	for i := 0; i < n; i++ {
		ft := gen.Features{Xor: true, And: true, Or: i%3 == 0, Loop: i%4 == 1, Sub: i%5 == 0, EndInBranch: i%6 == 4,
			MaxDepth: 3 + i%2, MaxSize: 5 + i%6, MaxBranch: 3, EmptyBranch: i%4 == 2, OlderVar: i%3 == 1, Throws: i%5 == 3}
		ps = append(ps, gen.Random(fmt.Sprintf("c17_%d_%d", c.Seed, i), c.Seed*1000+int64(i), ft))
	}
	// several tokens of one instance at ONE gateway at the same time (the same conditions are
	// evaluated, the same node state is touched, from several flow goroutines at once)
	gen.MergedArrival, gen.BurstArrival = true, true
	for _, kind := range []string{"xor"} {
		ps = append(ps, gen.GatewayTable(kind, 2, 0, 4, -1), gen.GatewayTable(kind, 1, -1, 3, -1), gen.GatewayTable(kind, 2, 2, 5, -1))
	}
	gen.MergedArrival, gen.BurstArrival = false, false
	ps = append(ps, gen.GatewayTable("xor", 2, 1, 3, -1), gen.ParallelBurst(2, 2, 3), gen.ParallelNM(3, 3, false))
	ps = append(ps, gen.CatchShapes()...)
	ps = append(ps, gen.EventGatewayShapes()...)
	ps = append(ps, gen.MultiCatchShapes()...)
	job := &Job{Programs: ps, Opts: JobOpts{Concurrent: true, Race: true, Perturb: 9, Seed: c.Seed, TMs: 8000}}
	reps := 3
	if !c.Quick() {
		reps = 6
	}
	for i := range ps {
		for k := 0; k < reps; k++ {
			job.Schedules = append(job.Schedules, drive.Schedule{Prog: i})
		}
	}
	dir := c.sub("race-runs")
	runs, err := ReplayAll(dir, job, c.Workers)
	if err != nil {
		c.Infraf("concurrent runs: %v", err)
		return c.Finish("exploration", "concurrent runs", false, fs)
	}
	c.Evaluations += len(runs)
	// (1) the outcome is one the sequential token semantics allows (TLC)
	progOf := func(r int) int { return job.Schedules[r].Prog }
	acc, fails, _, err := c.ValidateTrace("TokenGameTrace", ps, runs, drive.FilterTG, progOf, "")
	if err != nil {
		c.Infraf("validate: %v", err)
	} else {
		for r := range runs {
			if acc[r] {
				continue
			}
			f := fails[r]
			p := ps[progOf(r)]
			kind := ""
			if nd := p.Node(f.Node); nd != nil {
				kind = nd.Kind
			}
			flog := drive.FilterTG(p, runs[r])
			c.Reject(fs, Rejection{Prop: "C17", Tags: append([]string{"outcome"}, p.Tags...), Ev: f.Ev, Node: f.Node, NodeKind: kind, Detail: detail(p, flog, f)},
				map[string]any{"program": p, "log": runs[r]})
		}
	}
	// (2) what the race detector saw during those runs
	races := raceReports(dir)
	keys := make([]string, 0, len(races))
	for k := range races {
		keys = append(keys, k)
	}
	sort.Strings(keys)
	for _, k := range keys {
		c.Reject(fs, Rejection{Prop: "C17", Tags: []string{"race"}, Ev: "race", Detail: k}, map[string]any{"sites": k, "report": races[k]})
	}
	c.Extra["race_reports_distinct"] = len(keys)
	c.Extra["distinct_nontrivial"] = len(ps)
	c.Extra["programs"] = len(ps)
	if len(runs) > 0 {
		for r, log := range runs {
			if acc[r] {
				c.Samples = append(c.Samples, map[string]any{"program": ps[progOf(r)].Name, "observed": summarise(drive.FilterTG(ps[progOf(r)], log))})
				break
			}
		}
	}
	c.Assumptions = append(c.Assumptions, "data-race freedom is observed by the Go race detector on the model-driven runs; it is not decided by TLC")
	return c.Finish("exploration", "C01 / C06 / C10 / C11 / C14 programs driven from concurrent goroutines (every pending request answered by its own goroutine, awaited events delivered by goroutines, variable reads, completion waits and subscribe/unsubscribe from further goroutines, schedule perturbation at the verif hooks) in worker processes built with -race; every run's outcome is validated by TLC against TokenGameTrace; race reports whose stacks contain non-test repository files are rejections keyed by the pair of access sites; a panic kills the worker and is a rejection; distinct = programs", false, fs)
}
