package check

import (
	"bufio"
	"bytes"
	"encoding/json"
	"fmt"
	"os"
	"os/exec"
	"path/filepath"
	"strconv"
	"strings"
	"sync"
	"time"

	"verif/harness/internal/drive"
	"verif/harness/internal/prog"
	"verif/harness/internal/sched"
)

type JobOpts struct {
	TMs     int    `json:"t_ms"`
	StuckMs int    `json:"stuck_ms"`
	GraceMs int    `json:"grace_ms"`
	Lang    string `json:"lang"`
	Seed    int64  `json:"seed"`
	Auto    bool   `json:"auto"`
	Perturb int    `json:"perturb"`
	Mode    string `json:"mode"` // "" engine run; other modes are dispatched by the worker
	// HoldPoints restricts the hook points single-hold policies choose from
	HoldPoints []string `json:"hold_points"`
	Sub2       bool     `json:"sub2"`
	RoundTrip  bool     `json:"roundtrip"`
	Concurrent bool     `json:"concurrent"`
	// Race: run the workers with the race-detector build of the harness
	Race bool `json:"race"`
	// LingerMs: pause before every scripted step (0: every third run pauses 6 ms; -1: never)
	LingerMs int `json:"linger_ms"`
	// EarlyWait: every second run waits for completion the moment StartAll has returned
	EarlyWait bool `json:"early_wait"`
	// EagerDeliver: events are delivered as soon as the catch events they address listen
	EagerDeliver bool `json:"eager_deliver"`
	EagerAnswer  bool `json:"eager_answer"`
	// ConcurrentStart: every start event is triggered by its own StartWith call, all at once
	ConcurrentStart bool `json:"concurrent_start"`
	// Instant: the scripted steps are ignored, every request is answered the moment it appears
	Instant bool `json:"instant"`
}

type Job struct {
	Programs  []*prog.Program  `json:"programs"`
	Schedules []drive.Schedule `json:"schedules"`
	Opts      JobOpts          `json:"opts"`
	// Mode "tracer": one tracer scenario per entry of Schedules (same index)
	Tracer []drive.TracerScenario `json:"tracer"`
	// PolicyRun: run index that selects the perturbation policy (and driver variations) of each
	// schedule; absent: the schedule's own index.  A confirmation re-run keeps the policy of the
	// run it confirms.
	PolicyRun []int `json:"policy_run,omitempty"`
	// Mode "cancel": cancel point (number of traces) per schedule index, -1 = reference run
	CancelAt []int `json:"cancel_at"`
	// Mode "builds"
	Builds []drive.BuildSpec `json:"builds"`
	// Mode "values"
	Values []drive.ValueScenario `json:"values"`
	// Mode "set"
	Sets []drive.SetScenario `json:"sets"`
	// Mode "timercatch"
	TimerCatch []drive.TimerCatchBehaviour `json:"timercatch"`
	// Mode "timer"
	TimerDefs []drive.TimerDef      `json:"timer_defs"`
	Timer     []drive.TimerSchedule `json:"timer"`
}

type RunLog struct {
	Run   int                `json:"run"`
	Log   []drive.Rec        `json:"log"`
	TLog  []drive.TRec       `json:"tlog,omitempty"`
	TmLog []drive.TmRec      `json:"tmlog,omitempty"`
	SLog  []drive.SetRec     `json:"slog,omitempty"`
	VRes  *drive.ValueResult `json:"vres,omitempty"`
	Crash string             `json:"crash,omitempty"`
}

func (o JobOpts) driveOptsFor(run int) drive.Options {
	d := o.driveOpts()
	d.EarlyWait = o.EarlyWait && run%2 == 0
	d.EagerDeliver = o.EagerDeliver
	d.EagerAnswer = o.EagerAnswer
	d.Instant = o.Instant
	d.ConcurrentStart = o.ConcurrentStart
	switch {
	case o.LingerMs > 0:
		d.Linger = time.Duration(o.LingerMs) * time.Millisecond
	case o.LingerMs == 0 && (int64(run)+o.Seed)%3 == 0:
		d.Linger = 6 * time.Millisecond
	}
	return d
}

func (o JobOpts) driveOpts() drive.Options {
	d := drive.DefaultOptions()
	if o.TMs > 0 {
		d.T = time.Duration(o.TMs) * time.Millisecond
	}
	if o.StuckMs > 0 {
		d.StuckT = time.Duration(o.StuckMs) * time.Millisecond
	}
	if o.GraceMs > 0 {
		d.Grace = time.Duration(o.GraceMs) * time.Millisecond
	}
	d.Lang = o.Lang
	d.Seed = o.Seed
	d.Auto = o.Auto
	d.Perturb = o.Perturb
	d.Sub2 = o.Sub2
	d.RoundTrip = o.RoundTrip
	d.Concurrent = o.Concurrent
	return d
}

const recycleAfter = 40

// WorkerMain is the body of `vh worker job out shard nshards start`.
func WorkerMain(args []string) int {
	if len(args) < 5 {
		fmt.Fprintln(os.Stderr, "worker: bad args")
		return 2
	}
	var job Job
	b, err := os.ReadFile(args[0])
	if err != nil {
		fmt.Fprintln(os.Stderr, err)
		return 2
	}
	if err := json.Unmarshal(b, &job); err != nil {
		fmt.Fprintln(os.Stderr, err)
		return 2
	}
	shard, _ := strconv.Atoi(args[2])
	n, _ := strconv.Atoi(args[3])
	start, _ := strconv.Atoi(args[4])
	out, err := os.OpenFile(args[1], os.O_APPEND|os.O_CREATE|os.O_WRONLY, 0o644)
	if err != nil {
		fmt.Fprintln(os.Stderr, err)
		return 2
	}
	defer out.Close()
	done := 0
	for i := start; i < len(job.Schedules); i++ {
		if i%n != shard {
			continue
		}
		if done >= recycleAfter {
			return 3
		}
		sch := &job.Schedules[i]
		// progress marker: lets the parent attribute a crash to this run
		fmt.Fprintf(out, "{\"run\":%d,\"begin\":true}\n", i)
		pr := i
		if i < len(job.PolicyRun) {
			pr = job.PolicyRun[i]
		}
		sched.Install(sched.ForRun(job.Opts.Perturb, job.Opts.Seed, pr, job.Opts.HoldPoints))
		var line []byte
		if job.Opts.Mode == "tracer" {
			tlog := drive.TracerRun(i, job.Tracer[i])
			line, _ = json.Marshal(RunLog{Run: i, Log: []drive.Rec{}, TLog: tlog})
		} else if job.Opts.Mode == "cancel" {
			p := job.Programs[sch.Prog]
			log := drive.CancelRun(i, sch.Prog, p, job.CancelAt[i], job.Opts.driveOpts(), fmt.Sprintf("c%d-%d", os.Getpid(), i))
			line, _ = json.Marshal(RunLog{Run: i, Log: log})
		} else if job.Opts.Mode == "builds" {
			vr := drive.BuildRun(i, job.Builds[i])
			line, _ = json.Marshal(RunLog{Run: i, Log: []drive.Rec{}, VRes: &vr})
		} else if job.Opts.Mode == "values" {
			vr := drive.ValueRun(i, job.Values[i])
			line, _ = json.Marshal(RunLog{Run: i, Log: []drive.Rec{}, VRes: &vr})
		} else if job.Opts.Mode == "set" {
			sl := drive.SetRun(i, job.Sets[i], job.Opts.driveOpts().T)
			line, _ = json.Marshal(RunLog{Run: i, Log: []drive.Rec{}, SLog: sl})
		} else if job.Opts.Mode == "timercatch" {
			vr := drive.TimerCatchRun(i, job.TimerCatch[i], job.Opts.driveOpts().T)
			line, _ = json.Marshal(RunLog{Run: i, Log: []drive.Rec{}, VRes: &vr})
		} else if job.Opts.Mode == "timer" {
			tm := drive.TimerRun(i, job.TimerDefs, job.Timer[i], job.Opts.driveOpts().T)
			line, _ = json.Marshal(RunLog{Run: i, Log: []drive.Rec{}, TmLog: tm})
		} else {
			p := job.Programs[sch.Prog]
			log := drive.Run(i, p, sch, job.Opts.driveOptsFor(pr))
			line, _ = json.Marshal(RunLog{Run: i, Log: log})
		}
		out.Write(append(line, '\n'))
		done++
	}
	return 0
}

// ReplayAll executes every schedule of the job on the real engine in worker
// processes and returns the recorded logs indexed by run.  A worker crash
// (panic in an engine goroutine) is recorded as a "crash" record of the run
// in progress.
func ReplayAll(dir string, job *Job, nworkers int) (map[int][]drive.Rec, error) {
	raw, err := ReplayAllRaw(dir, job, nworkers)
	out := map[int][]drive.Rec{}
	for r, rl := range raw {
		out[r] = rl.Log
	}
	return out, err
}

// ReplayAllRaw is ReplayAll returning the complete per-run records.
func ReplayAllRaw(dir string, job *Job, nworkers int) (map[int]RunLog, error) {
	self, err := os.Executable()
	if err != nil {
		return nil, err
	}
	raceLog := ""
	if job.Opts.Race {
		// the race-detector build of this harness (built by ./check next to the normal one)
		if rb := os.Getenv("VH_RACE_BIN"); rb != "" {
			self = rb
		} else {
			self = self + "-race"
		}
		if _, err := os.Stat(self); err != nil {
			return nil, fmt.Errorf("race build of the harness not found: %v", err)
		}
		raceLog = filepath.Join(dir, "race")
	}
	jobPath := filepath.Join(dir, "job.json")
	b, _ := json.Marshal(job)
	if err := os.WriteFile(jobPath, b, 0o644); err != nil {
		return nil, err
	}
	if nworkers > len(job.Schedules) {
		nworkers = len(job.Schedules)
	}
	if nworkers < 1 {
		nworkers = 1
	}
	res := map[int]RunLog{}
	var mu sync.Mutex
	var wg sync.WaitGroup
	var firstErr error
	for w := 0; w < nworkers; w++ {
		wg.Add(1)
		go func(w int) {
			defer wg.Done()
			outPath := filepath.Join(dir, fmt.Sprintf("part%d.ndjson", w))
			os.Remove(outPath)
			start := 0
			for attempt := 0; attempt < len(job.Schedules)+5; attempt++ {
				cmd := exec.Command(self, "worker", jobPath, outPath, strconv.Itoa(w), strconv.Itoa(nworkers), strconv.Itoa(start))
				var stderr bytes.Buffer
				cmd.Stderr = &stderr
				cmd.Env = append(os.Environ(), "GOTRACEBACK=all")
				if raceLog != "" {
					cmd.Env = append(cmd.Env, "GORACE=halt_on_error=0 exitcode=0 log_path="+raceLog)
				}
				err := cmd.Run()
				code := 0
				if err != nil {
					if ee, ok := err.(*exec.ExitError); ok {
						code = ee.ExitCode()
					} else {
						mu.Lock()
						firstErr = err
						mu.Unlock()
						return
					}
				}
				// find the last begun and the last finished run
				lastBegin, lastDone := -1, -1
				f, _ := os.Open(outPath)
				if f != nil {
					sc := bufio.NewScanner(f)
					sc.Buffer(make([]byte, 1<<20), 1<<28)
					for sc.Scan() {
						var probe struct {
							Run   int  `json:"run"`
							Begin bool `json:"begin"`
						}
						if json.Unmarshal(sc.Bytes(), &probe) == nil {
							if probe.Begin {
								lastBegin = probe.Run
							} else {
								lastDone = probe.Run
							}
						}
					}
					f.Close()
				}
				if code == 0 {
					break
				}
				if code == 3 { // recycle
					start = lastDone + 1
					continue
				}
				if code == 2 && lastBegin < 0 {
					mu.Lock()
					firstErr = fmt.Errorf("worker failed: %s", stderr.String())
					mu.Unlock()
					return
				}
				// crash during run lastBegin
				if lastBegin > lastDone {
					mu.Lock()
					res[lastBegin] = RunLog{Run: lastBegin, Crash: crashSummary(stderr.String()), Log: []drive.Rec{
						{Run: lastBegin, Ev: "init", N: job.Schedules[lastBegin].Prog, Flows: []string{}, Vars: map[string]int{}},
						{Run: lastBegin, Ev: "crash", Kind: crashSummary(stderr.String()), Flows: []string{}, Vars: map[string]int{}},
					}, TLog: []drive.TRec{{Run: lastBegin, Ev: "init", P: 1}, {Run: lastBegin, Ev: "crash", S: crashSummary(stderr.String())}},
						TmLog: []drive.TmRec{{Run: lastBegin, Ev: "init"}, {Run: lastBegin, Ev: "crash"}},
						SLog:  []drive.SetRec{{Rec: drive.Rec{Run: lastBegin, Ev: "setinit", Flows: []string{}, Vars: map[string]int{}, Fids: []string{}}, Proc: -1}, {Rec: drive.Rec{Run: lastBegin, Ev: "crash", Kind: crashSummary(stderr.String()), Flows: []string{}, Vars: map[string]int{}, Fids: []string{}}, Proc: -1}}}
					mu.Unlock()
					start = lastBegin + 1
				} else {
					start = lastDone + 1
				}
			}
			_ = ReadNDJSON(outPath, func(line []byte) error {
				var rl RunLog
				if err := json.Unmarshal(line, &rl); err != nil {
					return nil
				}
				if rl.Log != nil {
					mu.Lock()
					res[rl.Run] = rl
					mu.Unlock()
				}
				return nil
			})
		}(w)
	}
	wg.Wait()
	return res, firstErr
}

// crashSummary keeps the panic message and the first engine frames.
func crashSummary(stderr string) string {
	lines := strings.Split(stderr, "\n")
	var keep []string
	for _, l := range lines {
		if strings.HasPrefix(l, "panic:") || strings.HasPrefix(l, "fatal error:") || strings.Contains(l, "WARNING: DATA RACE") {
			keep = append(keep, strings.TrimSpace(l))
		} else if strings.Contains(l, RepoRoot()+"/") && len(keep) < 12 {
			keep = append(keep, strings.TrimSpace(l))
		}
		if len(keep) >= 12 {
			break
		}
	}
	if len(keep) == 0 {
		return tail(stderr, 600)
	}
	return strings.Join(keep, " | ")
}
