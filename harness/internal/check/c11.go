package check

import (
	"fmt"
	"os"
	"path/filepath"
	"time"

	"verif/harness/internal/gen"
	"verif/harness/internal/prog"
)

// C11: events reach every listening catch event exactly once; delivery never blocks.
func C11(c *Ctx) int {
	fs, _ := LoadFindings()
	// level M: EventInbox.tla -- ConsumeEvent forwarding into the bounded inboxes of start / throw /
	// catch events whose run loops are not started, running or gone (cancel), 5 deliveries in
	// flight, every interleaving; the structure the code has now, and the pinned one (bare sends)
	// where TLC finds the blocked delivery of F12b / F29
	for _, g := range []string{"TRUE", "FALSE"} {
		dir := c.sub("eventinbox" + g)
		os.WriteFile(filepath.Join(dir, "MCE.tla"), []byte("---- MODULE MCE ----\nEXTENDS EventInbox\nMCNodes == <<\"start\", \"throw\", \"catch\">>\n====\n"), 0o644)
		cfg := fmt.Sprintf("SPECIFICATION Spec\nCONSTANTS\n  Nodes <- MCNodes\n  Cap = 3\n  Callers = {\"a\", \"b\", \"c\", \"d\", \"e\"}\n  Guarded = %s\n  MayCancel = TRUE\nINVARIANTS TypeOK NoStuckCaller\nPROPERTIES CallersReturn\nCHECK_DEADLOCK TRUE\n", g)
		res, err := RunTLC(dir, "MCE", cfg, TLCOpts{Workers: 8, Timeout: 10 * time.Minute})
		if err != nil {
			c.Infraf("EventInbox.tla: %v", err)
			continue
		}
		if g == "TRUE" {
			if !res.OK {
				c.Infraf("EventInbox.tla (guarded sends) is violated: %s", res.Violated)
			}
			c.States += res.Distinct
			c.Transitions += res.Generated
			c.Extra["eventinbox_states"] = res.Distinct
		} else {
			c.Extra["pinned_structure_counterexample_found_by_TLC"] = res.Violated
		}
	}
	ps := gen.CatchShapes()
	ps = append(ps, gen.ThrowShapes()...)
	nd, capN := 4, 40
	if !c.Quick() {
		nd, capN = 5, 600
	}
	if err := c.TokenGameRound(fs, ps, RoundOpts{Label: "catch", MaxSteps: 8, MaxPerProg: capN,
		Features: []string{"deliver"}, MaxDeliver: nd}); err != nil {
		c.Infraf("%v", err)
	}
	// long histories (up to 8 deliveries) by TLC random simulation
	sim := 300
	if !c.Quick() {
		sim = 5000
	}
	if err := c.TokenGameRound(fs, ps, RoundOpts{Label: "long", MaxSteps: 14, Simulate: sim, MaxPerProg: 60,
		Features: []string{"deliver"}, MaxDeliver: 8}); err != nil {
		c.Infraf("%v", err)
	}
	// bursts: events handed to the instance back to back, without waiting for what the previous
	// one causes, while every catch event is slow in working its inbox off (held at each message):
	// more events than an inbox holds must neither block the deliverer for good nor get lost
	// (single-token programs with one catch event: no token can arrive at a catch event in the
	// middle of a burst, so every delivery is unambiguous)
	var single []*prog.Program
	for _, p := range ps {
		nc, multi := 0, false
		for _, n := range p.Nodes {
			if n.Kind == "catch" {
				nc++
			}
			if n.Kind == "and" || n.Kind == "or" {
				multi = true
			}
		}
		if nc == 1 && !multi {
			single = append(single, p)
		}
	}
	if err := c.TokenGameRound(fs, single, RoundOpts{Label: "burst", MaxSteps: 12, Simulate: sim / 2, MaxPerProg: 60,
		Features: []string{"deliver"}, MaxDeliver: 8,
		Job: JobOpts{Perturb: 3, EagerAnswer: true, LingerMs: -1, HoldPoints: []string{"catch.event"}}}); err != nil {
		c.Infraf("%v", err)
	}
	c.Extra["programs"] = len(ps)
	return c.Finish("model_checking", "processes with 1..3 catch events in sequence / in parallel / on a branch never taken / armed late, signal and message events; TLC enumerates event histories (matching, non-matching, repeated; delivered before, while and after arming) interleaved with task answers, up to 4-5 deliveries exhaustively and up to 8 by simulation; every ConsumeEvent must return within T; TokenGameTrace decides which listeners continue", false, fs)
}
