package check

import (
	"verif/harness/internal/gen"
)

// C11: events reach every listening catch event exactly once; delivery never blocks.
func C11(c *Ctx) int {
	fs, _ := LoadFindings()
	ps := gen.CatchShapes()
	ps = append(ps, gen.ThrowShapes()...)
	nd, capN := 4, 40
	if !c.Quick() {
		nd, capN = 5, 600
	}
	if err := c.TokenGameRound(fs, ps, RoundOpts{Label: "catch", MaxSteps: 8, MaxPerProg: capN,
		Features: []string{"deliver"}, MaxDeliver: nd}); err != nil {
		c.Infraf("%v", err)
	}
	// long histories (up to 8 deliveries) by TLC random simulation
	sim := 300
	if !c.Quick() {
		sim = 5000
	}
	if err := c.TokenGameRound(fs, ps, RoundOpts{Label: "long", MaxSteps: 14, Simulate: sim, MaxPerProg: 60,
		Features: []string{"deliver"}, MaxDeliver: 8}); err != nil {
		c.Infraf("%v", err)
	}
	c.Extra["programs"] = len(ps)
	return c.Finish("model_checking", "processes with 1..3 catch events in sequence / in parallel / on a branch never taken / armed late, signal and message events; TLC enumerates event histories (matching, non-matching, repeated; delivered before, while and after arming) interleaved with task answers, up to 4-5 deliveries exhaustively and up to 8 by simulation; every ConsumeEvent must return within T; TokenGameTrace decides which listeners continue", false, fs)
}
