package check

import (
	"bytes"
	"encoding/json"
	"fmt"
	"os"
	"path/filepath"

	"verif/harness/internal/drive"
	"verif/harness/internal/prog"
)

// ReplayMain: `vh replay <file>` re-examines one violation file written by a check.
//
//   - a TokenGame round (program + environment schedule + job options): the schedule is
//     executed again on the real engine of /repo's current tree (several times, with the
//     stored perturbation class) and every recorded run is validated again by the trace
//     specification; exit 1 with a VIOLATION line if a re-run is rejected, 0 otherwise;
//   - a recorded scenario of a stand-alone component (tracer, timer, process set, id
//     generator): the stored log is validated again by its trace specification;
//   - anything else (value layer, builder, race reports): the stored rejection is printed.
func ReplayMain(args []string) int {
	if len(args) < 1 {
		fmt.Fprintln(os.Stderr, "usage: vh replay <file>")
		return 2
	}
	b, err := os.ReadFile(args[0])
	if err != nil {
		fmt.Fprintln(os.Stderr, err)
		return 2
	}
	var d struct {
		Property  string          `json:"property"`
		Tier      string          `json:"tier"`
		Seed      int64           `json:"seed"`
		Rejection Rejection       `json:"rejection"`
		Replay    json.RawMessage `json:"replay"`
	}
	if err := json.Unmarshal(b, &d); err != nil {
		fmt.Fprintln(os.Stderr, "not a replay file:", err)
		return 2
	}
	fmt.Printf("replay of %s (%s, seed %d): %s at %s %s tags=%v\n  %s\n", d.Property, d.Tier, d.Seed, d.Rejection.Prop, d.Rejection.Ev, d.Rejection.Node, d.Rejection.Tags, d.Rejection.Detail)
	var tg struct {
		Round    string          `json:"round"`
		Program  *prog.Program   `json:"program"`
		Schedule *drive.Schedule `json:"schedule"`
		Job      *JobOpts        `json:"job"`
		CancelAt *int            `json:"cancel_at"`
	}
	json.Unmarshal(d.Replay, &tg)
	c, err := NewCtx(d.Property, "quick", d.Seed)
	if err != nil {
		fmt.Fprintln(os.Stderr, err)
		return 2
	}
	defer c.Close()
	if tg.Program != nil && tg.Schedule != nil && tg.CancelAt == nil {
		return replayTokenGame(c, d.Property, args[0], tg.Program, tg.Schedule, tg.Job)
	}
	// recorded scenarios of stand-alone components: validate the stored log again
	var sc struct {
		Log   []json.RawMessage `json:"log"`
		TLog  []json.RawMessage `json:"tlog"`
		TmLog []json.RawMessage `json:"tmlog"`
		SLog  []json.RawMessage `json:"slog"`
	}
	json.Unmarshal(d.Replay, &sc)
	module := map[string]string{"C09": "TracerTrace", "C13": "TimerTrace", "C20": "IdGenTrace"}[d.Property]
	lines := sc.Log
	if len(sc.TLog) > 0 {
		lines = sc.TLog
	}
	if len(sc.TmLog) > 0 {
		lines = sc.TmLog
	}
	if module != "" && len(lines) > 0 && !has(d.Rejection.Tags, "grammar") && d.Property != "C13" {
		dir := c.sub("revalidate")
		tf := filepath.Join(dir, "trace.ndjson")
		f, _ := os.Create(tf)
		for _, l := range lines {
			var cb bytes.Buffer
			json.Compact(&cb, l)
			f.Write(cb.Bytes())
			f.Write([]byte("\n"))
		}
		f.Close()
		acc, fails, _, err := c.runTraceSpec(dir, module, "", tf, len(lines))
		if err != nil {
			fmt.Println("re-validation failed to run:", err)
			return 2
		}
		if len(acc) == 0 {
			for r, fl := range fails {
				fmt.Printf("stored run %d: rejected again by %s at record #%d (%s %s)\n", r, module, fl.L, fl.Ev, fl.Node)
			}
			fmt.Printf("VIOLATION property=%s replay=%s\n", d.Property, args[0])
			return 1
		}
		fmt.Printf("stored log is accepted by %s as it is now (the specification or harness changed since the file was written)\n", module)
		return 0
	}
	fmt.Println("stored evidence only (this kind of scenario is re-examined by running the check again): see the 'replay' member of the file")
	return 0
}

func replayTokenGame(c *Ctx, prop, path string, p *prog.Program, sch *drive.Schedule, jo *JobOpts) int {
	const n = 5
	sch.Prog = 0
	job := &Job{Programs: []*prog.Program{p}}
	if jo != nil {
		job.Opts = *jo
	}
	if job.Opts.Perturb == 0 {
		job.Opts.Perturb = 9
	}
	job.Opts.Mode = ""
	for i := 0; i < n; i++ {
		job.Schedules = append(job.Schedules, *sch)
	}
	job.Opts.TMs = max(job.Opts.TMs, 5000)
	runs, err := ReplayAll(c.sub("replay"), job, 1)
	if err != nil {
		fmt.Println("replay failed to run:", err)
		return 2
	}
	module, filter := "TokenGameTrace", drive.FilterTG // every engine round is judged by the token game
	acc, fails, _, err := c.ValidateTrace(module, job.Programs, runs, filter, func(int) int { return 0 }, "")
	if err != nil {
		fmt.Println("validation failed to run:", err)
		return 2
	}
	rejected := 0
	for r := 0; r < n; r++ {
		if _, ran := runs[r]; !ran {
			fmt.Printf("re-run %d: no log\n", r)
			continue
		}
		if acc[r] {
			fmt.Printf("re-run %d: accepted by %s\n", r, module)
			continue
		}
		rejected++
		fl := fails[r]
		fmt.Printf("re-run %d: REJECTED by %s: %s\n", r, module, detail(p, filter(p, runs[r]), fl))
		if rejected == 1 {
			for _, s := range summarise(filter(p, runs[r])) {
				fmt.Println("    ", s)
			}
		}
	}
	if rejected > 0 {
		fs, _ := LoadFindings()
		fl := Failure{}
		for r := 0; r < n; r++ {
			if !acc[r] {
				fl = fails[r]
				break
			}
		}
		if f := MatchFinding(fs, Rejection{Prop: prop, Tags: p.Tags, Ev: fl.Ev, Node: fl.Node}); f != nil {
			fmt.Printf("KNOWN-FINDING: property=%s %s: %s\n", f.Property, f.Id, f.Text)
			return 0
		}
		fmt.Printf("VIOLATION property=%s replay=%s\n", prop, path)
		return 1
	}
	fmt.Printf("not reproduced in %d re-runs on the current tree\n", n)
	return 0
}
