package check

import (
	"fmt"
	"sort"

	"verif/harness/internal/drive"
	"verif/harness/internal/gen"
	"verif/harness/internal/prog"
)

func cancelCorpus(c *Ctx) []*prog.Program {
	var ps []*prog.Program
	add := func(p *prog.Program, tag string) {
		p.Tags = append(p.Tags, "corpus:"+tag)
		ps = append(ps, p)
	}
	add(gen.ParallelNM(2, 2, false), "and")
	add(gen.ParallelNM(3, 1, true), "and-loop")
	add(gen.GatewayTable("xor", 2, 2, 2, -1), "xor")
	add(gen.GatewayTable("or", 2, 2, 1, -1), "or")
	add(gen.GatewayTable("or", 2, -1, 1, 0), "or-endbranch")
	subs := gen.SubShapes()
	add(subs[0], "sub")
	add(subs[1], "sub-loop")
	for _, p := range subs {
		if p.Name == "sub_par2_depth2" || p.Name == "sub_depth3_partrue" {
			add(p, "sub-nested")
		}
	}
	cs := gen.CatchShapes()
	add(cs[0], "catch")
	add(cs[4], "catch-par")
	add(cs[6], "catch-untaken")
	add(gen.EventGatewayShapes()[0], "evgw")
	{
		// a token waits for the decision of an error handler that never comes
		b := prog.NewBuilder("errhandler_pending")
		s := b.AddNode("start", "")
		t1 := b.AddNode("task", "")
		t2 := b.AddNode("task", "")
		t3 := b.AddNode("task", "")
		e := b.AddNode("end", "")
		b.Connect(s, t1, prog.Cond{})
		b.Connect(t1, t2, prog.Cond{})
		b.Connect(t2, t3, prog.Cond{})
		b.Connect(t3, e, prog.Cond{})
		b.P.Tags = append(b.P.Tags, "errhandler-pending")
		add(b.Done(), "errhandler-pending")
	}
	{
		// a token waits at a timer catch event (one hour, host clock) when the cancel comes
		b := prog.NewBuilder("timer_catch_host")
		s := b.AddNode("start", "")
		t := b.AddNode("task", "")
		tc := b.AddNode("catch", "")
		b.N(tc).Evs = []prog.EvDef{{K: "timer", Ref: "D:PT1H"}}
		u := b.AddNode("task", "")
		e := b.AddNode("end", "")
		b.Connect(s, t, prog.Cond{})
		b.Connect(t, tc, prog.Cond{})
		b.Connect(tc, u, prog.Cond{})
		b.Connect(u, e, prog.Cond{})
		b.P.Tags = append(b.P.Tags, "catch", "timer")
		add(b.Done(), "timer-host")
	}
	bs := gen.BoundaryShapes()
	add(bs[0], "boundary-i")
	add(bs[1], "boundary-n")
	for _, p := range bs {
		if p.Name == "bnd_sub_i" {
			add(p, "boundary-sub")
		}
	}
	n := 4
	if !c.Quick() {
		n = 20
	}
	for i := 0; i < n; i++ {
		ft := gen.Features{Xor: true, And: true, Or: i%2 == 0, Loop: i%3 == 1, Sub: i%2 == 1, MaxDepth: 3, MaxSize: 5 + i%4, MaxBranch: 3}
		add(gen.Random(fmt.Sprintf("c07_%d_%d", c.Seed, i), c.Seed*1000+int64(i), ft), "random")
	}
	return ps
}

// C07: cancelling the context at any point stops the instance and leaks nothing.
func C07(c *Ctx) int {
	fs, _ := LoadFindings()
	ps := cancelCorpus(c)
	points, distinct, sample := c.cancelRound(fs, "cancel", ps, JobOpts{Mode: "cancel", Seed: c.Seed, TMs: 3000, Perturb: 9})
	// late flows: several tokens on their way to ONE node (merged / burst arrival at an exclusive
	// gateway, a parallel join, an activity) while every flow is late in taking the action it was
	// handed (all passages of flow.action held): the cancel finds node goroutines that exit while
	// flows still owe them messages (probe reports, second requests) -- a bounded inbox nobody
	// drains any more must not block a flow for ever
	{
		var late []*prog.Program
		addL := func(p *prog.Program, tag string) {
			p.Tags = append(p.Tags, "corpus:"+tag, "late-flows")
			late = append(late, p)
		}
		gen.MergedArrival = true
		addL(gen.GatewayTable("xor", 1, -1, 2, -1), "xor-merged2")
		addL(gen.GatewayTable("xor", 2, 0, 3, -1), "xor-merged3")
		gen.BurstArrival = true
		addL(gen.GatewayTable("xor", 1, 1, 4, -1), "xor-burst4")
		gen.MergedArrival, gen.BurstArrival = false, false
		addL(gen.ParallelBurst(1, 1, 3), "and-burst")
		addL(gen.ParallelBurst(1, 1, 5), "and-burst5")
		addL(funnel("end", 5), "end-burst5")
		addL(funnel("task", 5), "task-burst5")
		addL(gen.ParallelBurst(2, 1, 2), "and-burst2")
		addL(gen.GatewayTable("or", 2, 2, 1, -1), "or")
		_, d2, _ := c.cancelRound(fs, "cancel-late", late, JobOpts{Mode: "cancel", Seed: c.Seed, TMs: 3000, Perturb: 3, HoldPoints: []string{"flow.action"}})
		for k := range d2 {
			distinct["late:"+k] = true
		}
		ps = append(ps, late...)
	}
	// level M: Engine.tla with the context cancelled at ANY point of every goroutine interleaving:
	// once nothing can move, every flow, node loop, re-send goroutine and the monitor have
	// returned (CancelLeavesNothing).  Thorough tier: also two tokens probing at one exclusive
	// gateway (14 M states), and the pinned structure (bare inbox sends), where TLC finds the
	// blocked flow of F28.
	{
		fam := []*prog.Program{gen.ParallelNM(2, 1, false), gen.GatewayTable("xor", 1, 0, 1, -1)}
		if !c.Quick() {
			fam = CancelFamily()
		}
		c.EngineRound(fam, EngineOpts{Label: "cancel", Cancel: true, MaxFlows: 8})
		if !c.Quick() {
			c.EngineRound(CancelFamily()[:1], EngineOpts{Label: "cancel-pinned", Cancel: true, BareSends: true, MaxFlows: 8})
		}
	}
	c.Extra["distinct_nontrivial"] = len(distinct)
	c.Extra["programs"] = len(ps)
	c.Extra["cancel_points_per_program"] = points
	if sample != nil {
		c.Samples = append(c.Samples, sample)
	}
	return c.Finish("fault_enumeration", "corpus covering every node kind and blocking situation (tasks awaiting an answer, parallel / inclusive joins, sub-processes, listening catch events, event-based gateway, boundary listeners, random block programs); for every program the context is cancelled after k traces for every k (quick: at most 24 evenly spread k), with requests answered and awaited events delivered at once; after the cancel: WaitUntilComplete latency, tracer termination, subscriber closure, context of late requests, census of the goroutines the instance started (pprof label); the run up to the cancel and the post-cancel observations are validated by TokenGameTrace; a second corpus (several tokens on their way to one node) is cancelled at every point with every flow late in taking its action; distinct = (program, cancel point) pairs", !c.Quick(), fs)
}

// funnel: k tokens created by one parallel fork reach, through a merging exclusive gateway, a
// single node of the given kind at the same time.
func funnel(kind string, k int) *prog.Program {
	b := prog.NewBuilder(fmt.Sprintf("funnel_%s_%d", kind, k))
	s := b.AddNode("start", "")
	f := b.AddNode("and", "")
	x := b.AddNode("xor", "")
	b.Connect(s, f, prog.Cond{})
	for i := 0; i < k; i++ {
		b.Connect(f, x, prog.Cond{})
	}
	e := b.AddNode("end", "")
	if kind == "end" {
		b.Connect(x, e, prog.Cond{})
	} else {
		t := b.AddNode(kind, "")
		b.Connect(x, t, prog.Cond{})
		b.Connect(t, e, prog.Cond{})
	}
	b.P.Tags = append(b.P.Tags, "funnel", kind)
	return b.Done()
}

// cancelRound: reference runs, then one run per (program, cancel point), validated by TokenGameTrace.
func (c *Ctx) cancelRound(fs []Finding, label string, ps []*prog.Program, opts JobOpts) (map[int]int, map[string]bool, map[string]any) {
	var sample map[string]any
	points := map[int]int{}
	distinct := map[string]bool{}
	// reference runs: how many traces does each program emit
	ref := &Job{Programs: ps, Opts: JobOpts{Mode: "cancel", Seed: c.Seed, TMs: 3000}}
	for i := range ps {
		ref.Schedules = append(ref.Schedules, drive.Schedule{Prog: i})
		ref.CancelAt = append(ref.CancelAt, -1)
	}
	refRuns, err := ReplayAll(c.sub(label+"-ref"), ref, c.Workers)
	if err != nil {
		c.Infraf("reference runs: %v", err)
	}
	job := &Job{Programs: ps, Opts: opts}
	for i := range ps {
		k := 0
		for _, rec := range refRuns[i] {
			if rec.Ev == "cancel" {
				k = rec.N
			}
		}
		points[i] = k
		step := 1
		if c.Quick() && k > 24 {
			step = (k + 23) / 24
		}
		for at := 0; at <= k; at += step {
			job.Schedules = append(job.Schedules, drive.Schedule{Prog: i})
			job.CancelAt = append(job.CancelAt, at)
		}
	}
	// parked: nothing is answered, the instance falls silent at its first requests, then the cancel
	for i, p := range ps {
		hasTask := false
		for _, n := range p.Nodes {
			if n.Kind == "task" {
				hasTask = true
			}
		}
		if hasTask {
			for rep := 0; rep < 2; rep++ {
				job.Schedules = append(job.Schedules, drive.Schedule{Prog: i})
				job.CancelAt = append(job.CancelAt, -2)
			}
		}
	}
	// the reference runs themselves are cancel-at-the-end cases
	for i := range ps {
		job.Schedules = append(job.Schedules, drive.Schedule{Prog: i})
		job.CancelAt = append(job.CancelAt, -1)
	}
	runs, err := ReplayAll(c.sub(label+"-runs"), job, c.Workers)
	if err != nil {
		c.Infraf("cancel runs: %v", err)
	}
	c.Evaluations += len(runs)
	progOf := func(r int) int { return job.Schedules[r].Prog }
	acc, fails, _, err := c.ValidateTrace("TokenGameTrace", ps, runs, drive.FilterTG, progOf, "")
	if err != nil {
		c.Infraf("validate: %v", err)
		return points, distinct, sample
	}
	var rejected []int
	for r := range runs {
		distinct[fmt.Sprintf("%d@%d", progOf(r), job.CancelAt[r])] = true
		if !acc[r] {
			rejected = append(rejected, r)
		}
	}
	sort.Ints(rejected)
	for _, r := range rejected {
		f := fails[r]
		p := ps[progOf(r)]
		det := ""
		for _, rec := range runs[r] {
			switch rec.Ev {
			case "census":
				det += fmt.Sprintf("census(%d: %s) ", rec.N, rec.Kind)
			case "waitret":
				det += fmt.Sprintf("waitret(%dms) ", rec.N)
			case "tracerdone", "subclosed":
				det += fmt.Sprintf("%s(%v) ", rec.Ev, rec.Ok)
			}
		}
		c.Reject(fs, Rejection{Prop: "C07", Tags: append([]string{}, p.Tags...), Ev: f.Ev, Node: f.Node,
			Detail: fmt.Sprintf("cancel after %d traces; rejected at %s; %s", job.CancelAt[r], f.Ev, det)},
			map[string]any{"program": p, "cancel_at": job.CancelAt[r], "log": runs[r]})
	}
	for r, log := range runs {
		if acc[r] && job.CancelAt[r] > 3 {
			sample = map[string]any{"program": ps[progOf(r)].Name, "cancel_after_traces": job.CancelAt[r], "observed": summarise(drive.FilterTG(ps[progOf(r)], log))}
			break
		}
	}
	return points, distinct, sample
}

// ParkedCancelRound: every program with a task is started, nothing is answered, and once the
// instance has fallen silent (tokens at their first requests, the completion monitor parked in
// its wait) the context is cancelled.  TokenGameTrace then rejects a cease-flow trace (it would
// claim that every token was consumed) besides the usual post-cancel contract.
func (c *Ctx) ParkedCancelRound(fs []Finding, ps []*prog.Program, reps int) {
	job := &Job{Programs: ps, Opts: JobOpts{Mode: "cancel", Seed: c.Seed, TMs: 3000, Perturb: 9}}
	for i, p := range ps {
		for _, n := range p.Nodes {
			if n.Kind == "task" {
				for rep := 0; rep < reps; rep++ {
					job.Schedules = append(job.Schedules, drive.Schedule{Prog: i})
					job.CancelAt = append(job.CancelAt, -2)
				}
				break
			}
		}
	}
	if len(job.Schedules) == 0 {
		return
	}
	runs, err := ReplayAll(c.sub("parked-cancel"), job, c.Workers)
	if err != nil {
		c.Infraf("parked cancel runs: %v", err)
		return
	}
	c.Evaluations += len(runs)
	progOf := func(r int) int { return job.Schedules[r].Prog }
	acc, fails, _, err := c.ValidateTrace("TokenGameTrace", ps, runs, drive.FilterTG, progOf, "")
	if err != nil {
		c.Infraf("parked cancel validate: %v", err)
		return
	}
	var rejected []int
	for r := range runs {
		if !acc[r] {
			rejected = append(rejected, r)
		}
	}
	sort.Ints(rejected)
	for _, r := range rejected {
		f := fails[r]
		p := ps[progOf(r)]
		c.Reject(fs, Rejection{Prop: c.Prop, Tags: append([]string{"parked-cancel"}, p.Tags...), Ev: f.Ev, Node: f.Node,
			Detail: fmt.Sprintf("cancel while parked at unanswered requests; rejected at %s %s", f.Ev, f.Node)},
			map[string]any{"program": p, "cancel_at": -2, "log": runs[r]})
	}
	c.Extra["parked_cancel_runs"] = len(runs)
}
