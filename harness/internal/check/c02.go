package check

import (
	"verif/harness/internal/gen"
	"verif/harness/internal/prog"
)

// C02: completion is reported iff all start events fired and no token remains.
func C02(c *Ctx) int {
	fs, _ := LoadFindings()
	ps := gen.CompletionShapes()
	capN := 60
	if !c.Quick() {
		capN = 400
	}
	if err := c.TokenGameRound(fs, ps, RoundOpts{Label: "waits", MaxSteps: 7, MaxPerProg: capN,
		Features: []string{"wait", "concwait"}, MaxWaits: 3,
		Job: JobOpts{Perturb: 9, EarlyWait: true, HoldPoints: []string{"process.start.triggered", "process.monitor.started", "process.monitor.cease", "process.wait.locked", "flow.start", "flow.flowtrace", "tracer.take", "tracer.subscribe"}}}); err != nil {
		c.Infraf("%v", err)
	}
	// the forking token is consumed while the flows it forked are only just starting (their
	// goroutines held at flow.start): completion must not be concluded in between
	if err := c.TokenGameRound(fs, gen.ForkAtTheEdgeShapes(), RoundOpts{Label: "fork-at-the-edge", MaxSteps: 5, Reps: 6,
		Features: []string{"wait"}, MaxWaits: 1,
		Job: JobOpts{Perturb: 3, LingerMs: -1, HoldPoints: []string{"flow.start"}}}); err != nil {
		c.Infraf("%v", err)
	}
	// StartAll is slow between two start events (held after each trigger) while the first start
	// event's flow is already over: no completion before the other start events have fired
	if err := c.TokenGameRound(fs, gen.StartAtTheEdgeShapes(), RoundOpts{Label: "start-at-the-edge", MaxSteps: 5, Reps: 6,
		Features: []string{"wait"}, MaxWaits: 1,
		Job: JobOpts{Perturb: 3, LingerMs: -1, HoldPoints: []string{"process.start.triggered"}}}); err != nil {
		c.Infraf("%v", err)
	}
	// the start events triggered by concurrent StartWith calls, the monitor's start-up slowed down
	// (held where it subscribes / where the start is triggered)
	{
		var multi []*prog.Program
		for _, p := range ps {
			if p.HasTag("multi-start") {
				multi = append(multi, p)
			}
		}
		multi = append(multi, gen.StartAtTheEdgeShapes()...)
		if err := c.TokenGameRound(fs, multi, RoundOpts{Label: "concurrent-start", MaxSteps: 6, MaxPerProg: 12, Reps: 3,
			Features: []string{"wait"}, MaxWaits: 1,
			Job: JobOpts{Perturb: 3, ConcurrentStart: true, LingerMs: -1, HoldPoints: []string{"process.monitor.create"}}}); err != nil {
			c.Infraf("%v", err)
		}
	}
	// cancel while the instance is parked at unanswered requests: no cease trace may follow
	c.ParkedCancelRound(fs, ps, 3)
	// level M: StartAll / monitor / wait-group / completion lock / waiters over every interleaving
	c.EngineRound(ps, EngineOpts{Label: "completion", MaxFlows: 6, NWaiters: 2, RunsPer: 3})
	c.Extra["programs"] = len(ps)
	return c.Finish("model_checking", "processes with 1..3 start events, instant completion, parallel tokens, a legitimately stuck instance; TLC enumerates answer orders interleaved with up to 3 completion waits (1..3 concurrent waiters; short time-outs before completion, i.e. waits that end by context expiry, then a long one after it); replayed on the real engine with schedule perturbation; TokenGameTrace decides every wait result, the cease trace and the final wait", false, fs)
}
