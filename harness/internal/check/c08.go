package check

import (
	"fmt"
	"time"

	"verif/harness/internal/gen"
)

// C08: one effective answer, declared results, error modes.
func C08(c *Ctx) int {
	fs, _ := LoadFindings()
	ps := gen.AnswerShapes()
	// level M: TaskDo.tla -- Do / process / request goroutine of one task request over every
	// interleaving of 3 callers with cancellation and time-out, in the structure the code has
	// now (guarded send) and in the pinned structure (bare send: TLC's stuck caller = F9)
	for _, g := range []string{"TRUE", "FALSE"} {
		cfg := fmt.Sprintf("SPECIFICATION Spec\nCONSTANTS\n  Callers = {\"a\", \"b\", \"c\"}\n  GuardedSend = %s\n  MayCancel = TRUE\n  MayTimeout = TRUE\nINVARIANTS TypeOK EffectiveIsACaller FirstSenderWins OneResponse NoStuckCaller\nPROPERTIES AtMostOneEffective CallersReturn\nCHECK_DEADLOCK TRUE\n", g)
		res, err := RunTLC(c.sub("taskdo"+g), "TaskDo", cfg, TLCOpts{Workers: 4, Timeout: 5 * time.Minute})
		if err != nil {
			c.Infraf("TaskDo.tla: %v", err)
			continue
		}
		if g == "TRUE" {
			if !res.OK {
				c.Infraf("TaskDo.tla (guarded send) is violated: %s", res.Violated)
			}
			c.States += res.Distinct
			c.Transitions += res.Generated
			c.Extra["taskdo_states"] = res.Distinct
		} else {
			c.Extra["pinned_structure_counterexample_found_by_TLC"] = res.Violated
		}
	}
	// the product of answer kinds x payloads x follow-up calls is large: the quick
	// tier samples it by TLC random simulation, the thorough tier samples deeper
	mr, sim := 2, 1500
	if !c.Quick() {
		mr, sim = 3, 12000
	}
	if err := c.TokenGameRound(fs, ps, RoundOpts{Label: "answers", MaxSteps: 8, Simulate: sim,
		Features: []string{"err", "again", "conc", "partial"}, MaxRetry: mr}); err != nil {
		c.Infraf("%v", err)
	}
	c.Extra["programs"] = len(ps)
	c.Assumptions = append(c.Assumptions, "the driver adds one undeclared result name to every answer; the specification stores declared names only")
	return c.Finish("model_checking", "answer histories per request enumerated by TLC: plain / error without handler / skip / exit / retry(0..n) answers, success on the k-th attempt, a further Do after the first, 2..3 concurrent first Do calls with different payloads; replayed on the real engine (every Do must return within T), validated by TokenGameTrace (request counts, error traces, stored variables = exactly the declared results of the effective answer, downstream conditions)", false, fs)
}
