package check

import (
	"verif/harness/internal/gen"
)

// C08: one effective answer, declared results, error modes.
func C08(c *Ctx) int {
	fs, _ := LoadFindings()
	ps := gen.AnswerShapes()
	// the product of answer kinds x payloads x follow-up calls is large: the quick
	// tier samples it by TLC random simulation, the thorough tier samples deeper
	mr, sim := 2, 1500
	if !c.Quick() {
		mr, sim = 3, 12000
	}
	if err := c.TokenGameRound(fs, ps, RoundOpts{Label: "answers", MaxSteps: 8, Simulate: sim,
		Features: []string{"err", "again", "conc"}, MaxRetry: mr}); err != nil {
		c.Infraf("%v", err)
	}
	c.Extra["programs"] = len(ps)
	c.Assumptions = append(c.Assumptions, "the driver adds one undeclared result name to every answer; the specification stores declared names only")
	return c.Finish("model_checking", "answer histories per request enumerated by TLC: plain / error without handler / skip / exit / retry(0..n) answers, success on the k-th attempt, a further Do after the first, 2..3 concurrent first Do calls with different payloads; replayed on the real engine (every Do must return within T), validated by TokenGameTrace (request counts, error traces, stored variables = exactly the declared results of the effective answer, downstream conditions)", false, fs)
}
