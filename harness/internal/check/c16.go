package check

import (
	"encoding/json"
	"fmt"
	"path/filepath"
	"sort"
	"time"

	"verif/harness/internal/drive"
)

// C16: values survive storage unchanged; nothing panics; instances are isolated.
func C16(c *Ctx) int {
	fs, _ := LoadFindings()
	dir := c.sub("values")
	tableFile := filepath.Join(dir, "table.ndjson")
	behFile := filepath.Join(dir, "beh.ndjson")
	// (24 operations per step x 3 ways the instances come into being: 41 472 behaviours of three
	// steps -- the quick tier replays every 16th, the thorough tier all of them; four steps would
	// be a million behaviours held in TLC's export register)
	maxOps := 3
	cfg := fmt.Sprintf("SPECIFICATION Spec\nCONSTANTS\n  OutTable = %q\n  OutBehaviours = %q\n  MaxOps = %d\nINVARIANT TableTotal\nPROPERTIES Isolation SnapshotIsAValue\nCONSTRAINT Record\nPOSTCONDITION Dump\nCHECK_DEADLOCK FALSE\n", tableFile, behFile, maxOps)
	res, err := RunTLC(dir, "ValueLayer", cfg, TLCOpts{Workers: 1, Timeout: 20 * time.Minute})
	if err != nil {
		c.Infraf("ValueLayer.tla: %v", err)
		return c.Finish("model_checking", "values", false, fs)
	}
	if res.Violated != "" {
		c.Infraf("ValueLayer.tla violates %s (spec-level)", res.Violated)
	}
	c.States += res.Distinct
	c.Transitions += res.Generated
	job := &Job{Opts: JobOpts{Mode: "values", Seed: c.Seed}}
	var desc []string
	kinds := map[string]bool{}
	ReadNDJSON(tableFile, func(line []byte) error {
		var r struct{ Decl, Kind, Type, Class, Same string }
		if err := json.Unmarshal(line, &r); err != nil {
			return err
		}
		job.Values = append(job.Values, drive.ValueScenario{Type: "table", Decl: r.Decl, Kind: r.Kind, XType: r.Type, Class: r.Class, Same: r.Same})
		desc = append(desc, fmt.Sprintf("table decl=%s kind=%s", r.Decl, r.Kind))
		kinds[r.Kind] = true
		return nil
	})
	c.Transitions += len(job.Values)
	ks := make([]string, 0, len(kinds))
	for k := range kinds {
		ks = append(ks, k)
	}
	sort.Strings(ks)
	for _, k := range ks {
		job.Values = append(job.Values, drive.ValueScenario{Type: "engine", Kind: k})
		desc = append(desc, "engine kind="+k)
	}
	nb := 0
	ReadNDJSON(behFile, func(line []byte) error {
		var b struct {
			Steps []drive.StoreStep `json:"steps"`
			Mode  string            `json:"mode"`
		}
		if err := json.Unmarshal(line, &b); err != nil {
			return err
		}
		nb++
		if c.Quick() && nb%16 != int(c.Seed)%16 {
			return nil
		}
		job.Values = append(job.Values, drive.ValueScenario{Type: "store", Steps: b.Steps, Mode: b.Mode, Seed: c.Seed + int64(nb)})
		desc = append(desc, fmt.Sprintf("store behaviour %d", nb))
		return nil
	})
	// isolation between the member processes of a process set
	for k := 0; k < 3; k++ {
		job.Values = append(job.Values, drive.ValueScenario{Type: "set"})
		desc = append(desc, "process-set isolation")
	}
	for range job.Values {
		job.Schedules = append(job.Schedules, drive.Schedule{})
	}
	raw, err := ReplayAllRaw(c.sub("value-runs"), job, c.Workers)
	if err != nil {
		c.Infraf("value runs: %v", err)
	}
	checked := 0
	idx := make([]int, 0, len(raw))
	for r := range raw {
		idx = append(idx, r)
	}
	sort.Ints(idx)
	for _, r := range idx {
		rl := raw[r]
		sc := job.Values[r]
		tags := []string{"values", sc.Type, "kind:" + sc.Kind, "decl:" + sc.Decl}
		if rl.Crash != "" {
			c.Reject(fs, Rejection{Prop: "C16", Tags: tags, Ev: "crash", Detail: desc[r] + ": " + rl.Crash}, map[string]any{"scenario": sc})
			continue
		}
		if rl.VRes == nil {
			continue
		}
		checked += rl.VRes.Checked
		c.TracesValidated++
		for _, m := range rl.VRes.Mismatches {
			c.Reject(fs, Rejection{Prop: "C16", Tags: tags, Ev: "mismatch", Detail: m}, map[string]any{"scenario": sc, "mismatch": m})
		}
	}
	c.Evaluations += checked
	c.Extra["table_rows"] = len(kinds) * 7
	c.Extra["store_behaviours_replayed"] = nb
	c.Samples = append(c.Samples, map[string]any{"row": job.Values[0], "concrete_values": fmt.Sprintf("%#v", drive.Samples(job.Values[0].Kind))})
	return c.Finish("model_checking", "ValueLayer.tla: the dispatch table declared item type x dynamic Go kind -> (item type, canonical class) checked for totality, and the per-instance variable store (Set / Get / CloneVariables snapshot / Merge over 2 instances created separately, from one shared option list, or from one shared option list holding a ready-made item) checked for isolation and for snapshots and handed-in items being values; TLC exports the table rows and every store behaviour up to MaxOps operations; the Go side instantiates every row and abstract value with concrete boundary values (all integer widths within int64, floats, unicode strings, nested slices/maps, structs, pointers, nil) and steps the real schema.Value / FlowDataLocator / engine (variables, task results, data outputs, olive property and header references to present and absent paths); any panic is a rejection", true, fs)
}
