package check

import (
	"encoding/json"
	"fmt"
	"os"
	"path/filepath"
	"sort"
	"time"

	"verif/harness/internal/drive"

	"verif/harness/internal/gen"
	"verif/harness/internal/prog"
)

// engineSupported: node kinds Engine.tla (level M) models.
func engineSupported(p *prog.Program) bool {
	for _, n := range p.Nodes {
		switch n.Kind {
		case "start", "end", "task", "xor", "and":
		default:
			return false
		}
		if n.Scope != "" {
			return false
		}
	}
	return true
}

// DoubleArrival: two tokens reach a parallel join over the SAME incoming
// flow while nothing has arrived over the other one (whose upstream task is
// never answered before): start -> F0 (1x3): two branches -> XOR merge -> G.a ;
// third branch -> task T -> G.b ; G -> task D -> end.
func DoubleArrival() *prog.Program {
	b := prog.NewBuilder("and_double_arrival")
	s := b.AddNode("start", "")
	f0 := b.AddNode("and", "")
	x := b.AddNode("xor", "")
	t := b.AddNode("task", "")
	g := b.AddNode("and", "")
	d := b.AddNode("task", "")
	e := b.AddNode("end", "")
	b.Connect(s, f0, prog.Cond{})
	b.Connect(f0, x, prog.Cond{})
	b.Connect(f0, x, prog.Cond{})
	b.Connect(f0, t, prog.Cond{})
	b.Connect(x, g, prog.Cond{})
	b.Connect(t, g, prog.Cond{})
	b.Connect(g, d, prog.Cond{})
	b.Connect(d, e, prog.Cond{})
	b.P.Tags = append(b.P.Tags, "and", "double-arrival")
	return b.Done()
}

// EngineFamily: the programs Engine.tla is model-checked on (every goroutine
// interleaving) and whose real runs are validated against it.
func EngineFamily(level int) []*prog.Program {
	var ps []*prog.Program
	add := func(p *prog.Program) {
		if engineSupported(p) {
			ps = append(ps, p)
		}
	}
	for _, p := range gen.CompletionShapes() {
		add(p)
	}
	maxN := 2
	if level > 0 {
		maxN = 3
	}
	for n := 1; n <= maxN; n++ {
		for m := 1; m <= maxN; m++ {
			add(gen.ParallelNM(n, m, false))
		}
	}
	add(gen.ParallelBurst(1, 1, 2))
	add(gen.ParallelBurst(2, 1, 2))
	// exclusive gateway tables: k conditional flows, default absent / present, 1..2 tokens
	for k := 1; k <= 2; k++ {
		for _, dpos := range []int{-1, 0, k} {
			for tokens := 1; tokens <= 2; tokens++ {
				add(gen.GatewayTable("xor", k, dpos, tokens, -1))
			}
		}
	}
	if level > 0 {
		add(gen.ParallelNM(2, 2, true))
		add(gen.GatewayTableLoop("xor", 2, 0, 1, -1, true))
		gen.MergedArrival, gen.BurstArrival = true, true
		add(gen.GatewayTable("xor", 2, 0, 2, -1))
		gen.MergedArrival, gen.BurstArrival = false, false
	}
	return ps
}

// CancelFamily: the programs Engine.tla is model-checked on with cancellation enabled at every
// point: several tokens on their way to one node (the inbox bound), a join half full, tasks.
func CancelFamily() []*prog.Program {
	var ps []*prog.Program
	gen.MergedArrival = true
	ps = append(ps, gen.GatewayTable("xor", 1, -1, 2, -1))
	gen.MergedArrival = false
	ps = append(ps, gen.ParallelNM(2, 1, false), gen.GatewayTable("xor", 1, 0, 1, -1))
	return ps
}

// FamilyMain: vh family <name> <out.json>
func FamilyMain(args []string) int {
	if len(args) < 2 {
		fmt.Fprintln(os.Stderr, "usage: vh family <engine0|engine1|double> <out.json>")
		return 2
	}
	var ps []*prog.Program
	switch args[0] {
	case "engine0":
		ps = EngineFamily(0)
	case "engine1":
		ps = EngineFamily(1)
	case "double":
		ps = []*prog.Program{DoubleArrival()}
	case "cancel":
		ps = CancelFamily()
	default:
		return 2
	}
	if err := writePrograms(args[1], ps); err != nil {
		fmt.Fprintln(os.Stderr, err)
		return 2
	}
	for i, p := range ps {
		fmt.Printf("%d %s %v\n", i+1, p.Name, p.Tags)
	}
	return 0
}

// EngineOpts parameterises one level-M round.
type EngineOpts struct {
	// Cancel: the context may be cancelled at any point (CancelLeavesNothing is checked; no
	// fidelity runs).  BareSends: the pinned structure (bare inbox sends), where TLC is expected
	// to find the blocked flow; its result is only recorded.
	Cancel    bool
	BareSends bool
	Label    string
	MaxFlows int
	NWaiters int
	RunsPer  int // recorded real runs per program for the fidelity validation
	Workers  int
}

// EngineRound is the level-M part of a check:
//
//	(1) TLC model-checks Engine.tla (the engine as built: goroutines, inboxes, response
//	    channels, wait group, monitor, completion lock) against the token game over EVERY
//	    interleaving, for each program of ps;
//	(2) free-running, perturbed executions of the same programs on the real engine are
//	    recorded and their own trace stream is validated against Engine.tla (EngineTrace):
//	    the code's executions are executions of the model (fidelity).
//
// A model-level counterexample or a fidelity mismatch is never a VIOLATION by itself (verdicts
// come from level P on real executions): it is reported as a note and, for a counterexample of
// the unchanged model, as an infrastructure problem to be looked into.
func (c *Ctx) EngineRound(ps []*prog.Program, o EngineOpts) {
	var fam []*prog.Program
	for _, p := range ps {
		if engineSupported(p) {
			fam = append(fam, p)
		}
	}
	if len(fam) == 0 {
		return
	}
	if o.MaxFlows == 0 {
		o.MaxFlows = 10
	}
	if o.Workers == 0 {
		o.Workers = c.Workers
	}
	if o.RunsPer == 0 {
		o.RunsPer = 2
	}
	dir := c.sub("engine-" + o.Label)
	progFile := filepath.Join(dir, "programs.json")
	if err := writePrograms(progFile, fam); err != nil {
		c.Infraf("engine %s: %v", o.Label, err)
		return
	}
	tf := map[bool]string{true: "TRUE", false: "FALSE"}
	consts := fmt.Sprintf("  ProgFile = %q\n  MaxFlows = %d\n  NWaiters = %d\n  MayCancel = %s\n  CtxSends = %s\n", progFile, o.MaxFlows, o.NWaiters, tf[o.Cancel], tf[!o.BareSends])
	invs := "ETypeOK EngineWithinGame CeaseOnlyWhenComplete WaitTrueOnlyAfterCease QuiescentAgrees ParCounter NoInvalidState"
	if o.Cancel {
		invs += " CancelLeavesNothing"
	}
	cfg := "SPECIFICATION Spec\nCONSTANTS\n" + consts + "INVARIANTS " + invs + "\nCHECK_DEADLOCK FALSE\n"
	res, err := RunTLC(dir, "Engine", cfg, TLCOpts{Workers: o.Workers, Timeout: 25 * time.Minute})
	em := map[string]any{"programs": len(fam), "max_flows": o.MaxFlows, "waiters": o.NWaiters, "cancel": o.Cancel}
	if o.BareSends {
		// the pinned structure: only what TLC finds is recorded
		if err == nil {
			c.Extra["engine_level_M:"+o.Label] = map[string]any{"programs": len(fam), "pinned_structure_counterexample_found_by_TLC": res.Violated, "states": res.Distinct}
		}
		return
	}
	if err != nil {
		c.Infraf("Engine.tla (%s): %v", o.Label, err)
	} else {
		em["states"] = res.Distinct
		em["transitions"] = res.Generated
		em["depth"] = res.Depth
		em["wall_s"] = res.WallS
		c.States += res.Distinct
		c.Transitions += res.Generated
		if res.Violated != "" {
			em["violated"] = res.Violated
			c.Infraf("Engine.tla (%s): invariant %s is violated in the model (a counterexample of the design; it counts only if a real execution reproduces it at level P):\n%s", o.Label, res.Violated, tail(res.Out, 1500))
		}
	}
	if o.Cancel {
		c.Extra["engine_level_M:"+o.Label] = em
		return
	}
	// fidelity: record real runs, validate their own trace stream against the model
	var scheds []drive.Schedule
	for r := 0; r < o.RunsPer; r++ {
		for i, p := range fam {
			sc := drive.Schedule{Prog: i}
			if p.HasTag("xor-nodefault") || p.HasTag("double-arrival") {
				sc.Expect = "stuck"
			}
			scheds = append(scheds, sc)
		}
	}
	job := &Job{Programs: fam, Schedules: scheds, Opts: JobOpts{Auto: true, Seed: c.Seed, Perturb: 9, LingerMs: -1}}
	runs, err := ReplayAll(c.sub("engine-runs-"+o.Label), job, c.Workers)
	if err != nil {
		c.Infraf("engine %s replay: %v", o.Label, err)
		return
	}
	traceFile := filepath.Join(dir, "etrace.ndjson")
	f, err := os.Create(traceFile)
	if err != nil {
		c.Infraf("engine %s: %v", o.Label, err)
		return
	}
	enc := json.NewEncoder(f)
	n := 0
	idx := make([]int, 0, len(runs))
	for r := range runs {
		idx = append(idx, r)
	}
	sort.Ints(idx)
	for _, r := range idx {
		for _, rec := range drive.FilterEngine(fam[scheds[r].Prog], runs[r]) {
			rec.Run = r
			if rec.Flows == nil {
				rec.Flows = []string{}
			}
			if rec.Vars == nil {
				rec.Vars = map[string]int{}
			}
			if rec.Fids == nil {
				rec.Fids = []string{}
			}
			enc.Encode(rec)
			n++
		}
	}
	f.Close()
	outFile := filepath.Join(dir, "eout.json")
	tcfg := "SPECIFICATION TraceSpec\nCONSTANTS\n" + consts + fmt.Sprintf("  TraceFile = %q\n  OutFile = %q\n", traceFile, outFile) +
		"INVARIANT TraceTypeOK\nPOSTCONDITION Report\nCHECK_DEADLOCK FALSE\n"
	tres, err := RunTLC(dir, "EngineTrace", tcfg, TLCOpts{Workers: 1, DFS: true, Timeout: 20 * time.Minute, Xss: "512m"})
	if err != nil {
		c.Infraf("EngineTrace (%s): %v", o.Label, err)
		return
	}
	var rep struct {
		Accepted []int          `json:"accepted"`
		Reached  map[string]int `json:"reached"`
		Len      int            `json:"len"`
	}
	b, err := os.ReadFile(outFile)
	if err != nil || json.Unmarshal(b, &rep) != nil {
		c.Infraf("EngineTrace (%s): no report\n%s", o.Label, tail(tres.Out, 1500))
		return
	}
	acc := map[int]bool{}
	for _, r := range rep.Accepted {
		acc[r] = true
	}
	c.States += tres.Distinct
	c.Transitions += tres.Generated
	c.TracesValidated += len(idx)
	c.Evaluations += len(idx)
	var mism []string
	for _, r := range idx {
		if !acc[r] {
			p := fam[scheds[r].Prog]
			flog := drive.FilterEngine(p, runs[r])
			// position of the first record no path of the model explains
			at, base := rep.Reached[fmt.Sprint(r)], 0
			for _, q := range idx {
				if q < r {
					base += len(drive.FilterEngine(fam[scheds[q].Prog], runs[q]))
				}
			}
			k := at - base // records of this run consumed
			what := "?"
			if k >= 0 && k < len(flog) {
				what = fmt.Sprintf("%s %s %v", flog[k].Ev, flog[k].Node, flog[k].Flows)
			}
			mism = append(mism, fmt.Sprintf("%s run %d: first unexplained record #%d: %s", p.Name, r, k, what))
		}
	}
	em["fidelity_runs"] = len(idx)
	em["fidelity_accepted"] = len(idx) - len(mism)
	if len(mism) > 0 {
		if len(mism) > 8 {
			mism = mism[:8]
		}
		em["fidelity_mismatches"] = mism
		fmt.Printf("NOTE property=%s level-M fidelity (%s): %d of %d recorded runs are not behaviours of Engine.tla (the code does not follow the model there; informational, see evidence): %s\n",
			c.Prop, o.Label, len(idx)-em["fidelity_accepted"].(int), len(idx), mism[0])
	}
	c.Extra["engine_level_M:"+o.Label] = em
}
