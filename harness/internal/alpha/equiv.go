// Package alpha compares two schema models structurally: the projection
// used for "an equivalent model" in C15 / C19.  Two values are equivalent
// when they have the same elements, ids, references, attributes, expressions
// (and their concrete expression type, i.e. formal or informal), event
// definitions and extension data; nil and empty collections are the same,
// and text payloads are compared up to surrounding whitespace.
package alpha

import (
	"fmt"
	"reflect"
	"strings"
)

// Diff returns up to max human-readable differences between a and b.
func Diff(a, b any, max int) []string {
	var out []string
	walk(reflect.ValueOf(a), reflect.ValueOf(b), "", &out, max, 0)
	return out
}

func isEmpty(v reflect.Value) bool {
	if !v.IsValid() {
		return true
	}
	switch v.Kind() {
	case reflect.Pointer, reflect.Interface:
		if v.IsNil() {
			return true
		}
		return isEmpty(v.Elem())
	case reflect.Slice, reflect.Map:
		return v.Len() == 0
	case reflect.String:
		return strings.TrimSpace(v.String()) == ""
	}
	return false
}

func walk(a, b reflect.Value, path string, out *[]string, max, depth int) {
	if len(*out) >= max || depth > 60 {
		return
	}
	ea, eb := isEmpty(a), isEmpty(b)
	if ea && eb {
		return
	}
	if ea != eb {
		// a pointer to an all-zero struct is as good as nil
		if (ea && zeroish(b)) || (eb && zeroish(a)) {
			return
		}
		*out = append(*out, fmt.Sprintf("%s: present on one side only (%s vs %s)", path, brief(a), brief(b)))
		return
	}
	for a.Kind() == reflect.Pointer || a.Kind() == reflect.Interface {
		a = a.Elem()
	}
	for b.Kind() == reflect.Pointer || b.Kind() == reflect.Interface {
		b = b.Elem()
	}
	if a.Type() != b.Type() {
		*out = append(*out, fmt.Sprintf("%s: type %s vs %s", path, a.Type(), b.Type()))
		return
	}
	switch a.Kind() {
	case reflect.Struct:
		for i := 0; i < a.NumField(); i++ {
			f := a.Type().Field(i)
			if !f.IsExported() {
				continue
			}
			walk(a.Field(i), b.Field(i), path+"."+f.Name, out, max, depth+1)
		}
	case reflect.Slice, reflect.Array:
		if a.Len() != b.Len() {
			*out = append(*out, fmt.Sprintf("%s: length %d vs %d", path, a.Len(), b.Len()))
			return
		}
		for i := 0; i < a.Len(); i++ {
			walk(a.Index(i), b.Index(i), fmt.Sprintf("%s[%d]", path, i), out, max, depth+1)
		}
	case reflect.Map:
		if a.Len() != b.Len() {
			*out = append(*out, fmt.Sprintf("%s: map size %d vs %d", path, a.Len(), b.Len()))
			return
		}
		for _, k := range a.MapKeys() {
			walk(a.MapIndex(k), b.MapIndex(k), fmt.Sprintf("%s[%v]", path, k), out, max, depth+1)
		}
	case reflect.String:
		if strings.TrimSpace(a.String()) != strings.TrimSpace(b.String()) {
			*out = append(*out, fmt.Sprintf("%s: %q vs %q", path, a.String(), b.String()))
		}
	case reflect.Func, reflect.Chan:
	default:
		if a.CanInterface() && b.CanInterface() && !reflect.DeepEqual(a.Interface(), b.Interface()) {
			*out = append(*out, fmt.Sprintf("%s: %v vs %v", path, a.Interface(), b.Interface()))
		}
	}
}

func zeroish(v reflect.Value) bool {
	for v.IsValid() && (v.Kind() == reflect.Pointer || v.Kind() == reflect.Interface) {
		if v.IsNil() {
			return true
		}
		v = v.Elem()
	}
	if !v.IsValid() {
		return true
	}
	switch v.Kind() {
	case reflect.Struct:
		for i := 0; i < v.NumField(); i++ {
			if v.Type().Field(i).IsExported() && !zeroish(v.Field(i)) {
				return false
			}
		}
		return true
	case reflect.Slice, reflect.Map:
		return v.Len() == 0
	case reflect.String:
		return strings.TrimSpace(v.String()) == ""
	}
	return v.IsZero()
}

func brief(v reflect.Value) string {
	if !v.IsValid() {
		return "nil"
	}
	s := fmt.Sprintf("%v", v)
	if len(s) > 60 {
		s = s[:60] + "..."
	}
	return s
}

// AllIds is Ids including the diagram-interchange elements.
func AllIds(a any) []string { return ids(a, true) }

// Ids collects every value of a field named IdField in the model (diagram
// interchange elements excluded).
func Ids(a any) []string { return ids(a, false) }

func ids(a any, withDiagram bool) []string {
	var out []string
	seen := map[uintptr]bool{}
	var rec func(v reflect.Value, depth int)
	rec = func(v reflect.Value, depth int) {
		if !v.IsValid() || depth > 60 {
			return
		}
		switch v.Kind() {
		case reflect.Pointer:
			if v.IsNil() || seen[v.Pointer()] {
				return
			}
			seen[v.Pointer()] = true
			rec(v.Elem(), depth+1)
		case reflect.Interface:
			if !v.IsNil() {
				rec(v.Elem(), depth+1)
			}
		case reflect.Struct:
			for i := 0; i < v.NumField(); i++ {
				f := v.Type().Field(i)
				if !f.IsExported() {
					continue
				}
				if f.Name == "DiagramField" && !withDiagram {
					continue // diagram interchange elements are outside the claimed model
				}
				if f.Name == "IdField" {
					fv := v.Field(i)
					if fv.Kind() == reflect.Pointer && !fv.IsNil() && fv.Elem().Kind() == reflect.String {
						out = append(out, fv.Elem().String())
					}
					continue
				}
				rec(v.Field(i), depth+1)
			}
		case reflect.Slice, reflect.Array:
			for i := 0; i < v.Len(); i++ {
				rec(v.Index(i), depth+1)
			}
		}
	}
	rec(reflect.ValueOf(a), 0)
	return out
}

// Print renders every exported field of the model reachable from a, deterministically: the
// fingerprint used to show that an operation (serialising) did not alter the model.
func Print(a any) string {
	var sb strings.Builder
	seen := map[uintptr]bool{}
	var rec func(v reflect.Value, depth int)
	rec = func(v reflect.Value, depth int) {
		if !v.IsValid() || depth > 80 {
			sb.WriteString("~")
			return
		}
		switch v.Kind() {
		case reflect.Pointer:
			if v.IsNil() {
				sb.WriteString("nil")
				return
			}
			if seen[v.Pointer()] && v.Elem().Kind() == reflect.Struct {
				sb.WriteString("^")
				return
			}
			seen[v.Pointer()] = true
			if v.Elem().Kind() == reflect.String && strings.TrimSpace(v.Elem().String()) == "" {
				// an absent text payload and a whitespace-only one are the same model
				sb.WriteString("nil")
				return
			}
			sb.WriteString("&")
			rec(v.Elem(), depth+1)
		case reflect.Interface:
			if v.IsNil() {
				sb.WriteString("nil")
				return
			}
			sb.WriteString(v.Elem().Type().String() + ":")
			rec(v.Elem(), depth+1)
		case reflect.Struct:
			sb.WriteString(v.Type().Name() + "{")
			for i := 0; i < v.NumField(); i++ {
				f := v.Type().Field(i)
				if !f.IsExported() {
					continue
				}
				sb.WriteString(f.Name + "=")
				rec(v.Field(i), depth+1)
				sb.WriteString(";")
			}
			sb.WriteString("}")
		case reflect.Slice, reflect.Array:
			if v.Kind() == reflect.Slice && v.IsNil() {
				sb.WriteString("nil[]")
				return
			}
			sb.WriteString("[")
			for i := 0; i < v.Len(); i++ {
				rec(v.Index(i), depth+1)
				sb.WriteString(",")
			}
			sb.WriteString("]")
		case reflect.Map:
			keys := v.MapKeys()
			ks := make([]string, len(keys))
			for i, k := range keys {
				ks[i] = fmt.Sprintf("%v", k)
			}
			sortStrings(ks)
			sb.WriteString("map[")
			for _, k := range ks {
				for _, kk := range keys {
					if fmt.Sprintf("%v", kk) == k {
						sb.WriteString(k + ":")
						rec(v.MapIndex(kk), depth+1)
						sb.WriteString(",")
					}
				}
			}
			sb.WriteString("]")
		case reflect.String:
			// (surrounding whitespace of a text payload is not part of the model: "whitespace-only text aside")
			sb.WriteString(fmt.Sprintf("%q", strings.TrimSpace(v.String())))
		case reflect.Func, reflect.Chan, reflect.UnsafePointer:
			sb.WriteString("fn")
		default:
			if v.CanInterface() {
				sb.WriteString(fmt.Sprintf("%v", v.Interface()))
			}
		}
	}
	rec(reflect.ValueOf(a), 0)
	return sb.String()
}

func sortStrings(a []string) {
	for i := 1; i < len(a); i++ {
		for j := i; j > 0 && a[j] < a[j-1]; j-- {
			a[j], a[j-1] = a[j-1], a[j]
		}
	}
}

// FirstDiff shows where two fingerprints part.
func FirstDiff(a, b string) string {
	i := 0
	for i < len(a) && i < len(b) && a[i] == b[i] {
		i++
	}
	lo := i - 70
	if lo < 0 {
		lo = 0
	}
	cut := func(s string) string {
		hi := i + 50
		if hi > len(s) {
			hi = len(s)
		}
		if lo > len(s) {
			return ""
		}
		return s[lo:hi]
	}
	return fmt.Sprintf("before ...%s... after ...%s...", cut(a), cut(b))
}

// BlankDefaultItemTypes sets the type of every olive item (a struct with Name, Value, Type and
// Ref fields) whose type is the default "string" to "", and returns how many it changed.
func BlankDefaultItemTypes(a any) int {
	n := 0
	seen := map[uintptr]bool{}
	var rec func(v reflect.Value, depth int)
	rec = func(v reflect.Value, depth int) {
		if !v.IsValid() || depth > 80 {
			return
		}
		switch v.Kind() {
		case reflect.Pointer:
			if v.IsNil() || seen[v.Pointer()] {
				return
			}
			seen[v.Pointer()] = true
			rec(v.Elem(), depth+1)
		case reflect.Interface:
			if !v.IsNil() {
				rec(v.Elem(), depth+1)
			}
		case reflect.Struct:
			if v.Type().Name() == "Item" {
				if f := v.FieldByName("Type"); f.IsValid() && f.Kind() == reflect.String && f.CanSet() && f.String() == "string" {
					f.SetString("")
					n++
				}
				return
			}
			for i := 0; i < v.NumField(); i++ {
				if v.Type().Field(i).IsExported() {
					rec(v.Field(i), depth+1)
				}
			}
		case reflect.Slice, reflect.Array:
			for i := 0; i < v.Len(); i++ {
				rec(v.Index(i), depth+1)
			}
		}
	}
	rec(reflect.ValueOf(a), 0)
	return n
}

// PerturbScalars visits every addressable scalar reachable from a (a pointer) through exported
// fields, pointers, interfaces holding pointers and slices -- bool, integer and float fields and
// non-empty plain strings that are not ids or references -- gives it another value, calls f with
// the path of the field, and restores it.  Fields that are not serialised (`xml:"-"`) are left
// alone.  It returns the number of fields visited.
// PerturbEmptyStrings: plain text attributes that are empty are given a value as well.
var PerturbEmptyStrings bool

func PerturbScalars(a any, strings_ bool, f func(path string)) int {
	n := 0
	seen := map[uintptr]bool{}
	var rec func(v reflect.Value, path string, depth int)
	rec = func(v reflect.Value, path string, depth int) {
		if depth > 60 || !v.IsValid() {
			return
		}
		switch v.Kind() {
		case reflect.Pointer:
			if v.IsNil() || seen[v.Pointer()] {
				return
			}
			seen[v.Pointer()] = true
			rec(v.Elem(), path, depth+1)
		case reflect.Interface:
			if !v.IsNil() && v.Elem().Kind() == reflect.Pointer {
				rec(v.Elem(), path, depth+1)
			}
		case reflect.Struct:
			for i := 0; i < v.NumField(); i++ {
				sf := v.Type().Field(i)
				if !sf.IsExported() || strings.HasPrefix(sf.Tag.Get("xml"), "-") {
					continue
				}
				rec(v.Field(i), path+"."+sf.Name, depth+1)
			}
		case reflect.Slice:
			for i := 0; i < v.Len(); i++ {
				rec(v.Index(i), fmt.Sprintf("%s[%d]", path, i), depth+1)
			}
		case reflect.Bool:
			if v.CanSet() {
				old := v.Bool()
				v.SetBool(!old)
				n++
				f(fmt.Sprintf("%s (%v -> %v)", path, old, !old))
				v.SetBool(old)
			}
		case reflect.Int, reflect.Int32, reflect.Int64:
			if v.CanSet() {
				old := v.Int()
				v.SetInt(old + 3)
				n++
				f(fmt.Sprintf("%s (%d -> %d)", path, old, old+3))
				v.SetInt(old)
			}
		case reflect.Float64, reflect.Float32:
			if v.CanSet() {
				old := v.Float()
				v.SetFloat(old + 2.5)
				n++
				f(fmt.Sprintf("%s (%v -> %v)", path, old, old+2.5))
				v.SetFloat(old)
			}
		case reflect.String:
			if strings_ && v.CanSet() && v.Type().Kind() == reflect.String && v.Type().PkgPath() == "" && (PerturbEmptyStrings || strings.TrimSpace(v.String()) != "") {
				low := strings.ToLower(path[strings.LastIndex(path, ".")+1:])
				if strings.Contains(low, "ref") || strings.HasSuffix(low, "id") || strings.Contains(low, "type") || strings.Contains(low, "language") || strings.Contains(low, "namespace") || strings.Contains(low, "xmlns") {
					return
				}
				old := v.String()
				v.SetString(old + "_v")
				n++
				f(fmt.Sprintf("%s (%q -> %q)", path, old, old+"_v"))
				v.SetString(old)
			}
		}
	}
	rec(reflect.ValueOf(a), "", 0)
	return n
}
