package main

import (
	"encoding/json"
	"fmt"
	"os"

	"verif/harness/internal/drive"
	"verif/harness/internal/prog"
	"verif/harness/internal/render"
)

func main() {
	if len(os.Args) < 2 {
		fmt.Fprintln(os.Stderr, "usage: vh <cmd>")
		os.Exit(2)
	}
	switch os.Args[1] {
	case "probe":
		probe()
	default:
		if !dispatch(os.Args[1], os.Args[2:]) {
			fmt.Fprintln(os.Stderr, "unknown command", os.Args[1])
			os.Exit(2)
		}
	}
}

func probe() {
	b := prog.NewBuilder("probe")
	s := b.AddNode("start", "")
	t1 := b.AddNode("task", "")
	b.N(t1).Writes = []string{"x"}
	b.P.Dom["x"] = []int{0, 1}
	a1 := b.AddNode("and", "")
	t2 := b.AddNode("task", "")
	t3 := b.AddNode("task", "")
	a2 := b.AddNode("and", "")
	x := b.AddNode("xor", "")
	t4 := b.AddNode("task", "")
	t5 := b.AddNode("task", "")
	e1 := b.AddNode("end", "")
	e2 := b.AddNode("end", "")
	b.Connect(s, t1, prog.Cond{})
	b.Connect(t1, a1, prog.Cond{})
	b.Connect(a1, t2, prog.Cond{})
	b.Connect(a1, t3, prog.Cond{})
	b.Connect(t2, a2, prog.Cond{})
	b.Connect(t3, a2, prog.Cond{})
	b.Connect(a2, x, prog.Cond{})
	b.Connect(x, t4, prog.Cond{K: "lt", V: "x", C: 1})
	d := b.Connect(x, t5, prog.Cond{})
	b.N(x).Default = d
	b.Connect(t4, e1, prog.Cond{})
	b.Connect(t5, e2, prog.Cond{})
	p := b.Done()
	if len(os.Args) > 2 {
		fmt.Println(render.XML(p, render.Options{}))
	}
	os.WriteFile("/tmp/t1/programs.json", append([]byte("["), append(p.JSON(), ']')...), 0o644)
	o := drive.DefaultOptions()
	o.Auto = true
	o.Seed = 1
	log := drive.Run(0, p, &drive.Schedule{}, o)
	enc := json.NewEncoder(os.Stdout)
	for _, r := range drive.FilterTG(p, log) {
		enc.Encode(r)
	}
}
