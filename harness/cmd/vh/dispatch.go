package main

import (
	"fmt"
	"os"
	"strconv"

	"verif/harness/internal/check"
)

var props = map[string]func(*check.Ctx) int{
	"C01": check.C01,
	"C02": check.C02,
	"C08": check.C08,
	"C09": check.C09,
	"C10": check.C10,
	"C11": check.C11,
	"C03": check.C03,
	"C04": check.C04,
	"C05": check.C05,
	"C06": check.C06,
	"C07": check.C07,
	"C12": check.C12,
	"C13": check.C13,
	"C14": check.C14,
	"C15": check.C15,
	"C16": check.C16,
	"C17": check.C17,
	"C18": check.C18,
	"C19": check.C19,
	"C20": check.C20,
}

func dispatch(cmd string, args []string) bool {
	switch cmd {
	case "worker":
		os.Exit(check.WorkerMain(args))
	case "replay":
		os.Exit(check.ReplayMain(args))
	case "family":
		os.Exit(check.FamilyMain(args))
	case "check":
		if len(args) < 1 {
			fmt.Fprintln(os.Stderr, "usage: vh check <id>")
			os.Exit(2)
		}
		f, ok := props[args[0]]
		if !ok {
			fmt.Fprintln(os.Stderr, "no check for", args[0])
			os.Exit(2)
		}
		tier := os.Getenv("VERIF_TIER")
		if tier == "" {
			tier = "quick"
		}
		if len(args) > 1 {
			tier = args[1]
		}
		seed, _ := strconv.ParseInt(os.Getenv("VERIF_SEED"), 10, 64)
		if seed == 0 {
			seed = 1
		}
		c, err := check.NewCtx(args[0], tier, seed)
		if err != nil {
			fmt.Fprintln(os.Stderr, err)
			os.Exit(2)
		}
		code := f(c)
		c.Close()
		os.Exit(code)
	default:
		return false
	}
	return true
}
