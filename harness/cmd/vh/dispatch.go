package main

func dispatch(cmd string, args []string) bool { return false }
