package main

import (
	"encoding/json"
	"os"

	"verif/harness/internal/check"
	"verif/harness/internal/drive"
	"verif/harness/internal/sched"
)

func main() {
	ps := check.EngineFamily(0)
	enc := json.NewEncoder(os.Stdout)
	run := 0
	for rep := 0; rep < 2; rep++ {
		for i, p := range ps {
			o := drive.DefaultOptions()
			o.Auto = true
			o.Seed = int64(rep*100 + i)
			sched.Install(sched.ForRun(9, 7, run, nil))
			sch := &drive.Schedule{Prog: i}
			if p.HasTag("xor-nodefault") {
				sch.Expect = "stuck"
			}
			log := drive.Run(run, p, sch, o)
			for _, r := range drive.FilterEngine(p, log) {
				r.Run = run
				if r.Flows == nil {
					r.Flows = []string{}
				}
				enc.Encode(r)
			}
			run++
		}
	}
}
