------------------------------- MODULE Engine -------------------------------
(***************************************************************************)
(* Level M: the engine as it is BUILT -- goroutines, inboxes, response     *)
(* channels, the flow wait group, the cease-flow monitor and the           *)
(* completion lock -- over the same programs-as-data as TokenGame.         *)
(*                                                                         *)
(* One action per critical section of a goroutine, i.e. per stretch of     *)
(* code between two blocking channel operations:                           *)
(*                                                                         *)
(*   flow goroutine (flow.go, method Start of flow)                                *)
(*     FlowBegin   go func(): NewFlowTrace, VisitTrace                     *)
(*     FlowAsk     f.current.NextAction: the request is put into the       *)
(*                 node's bounded inbox (blocks while it is full)          *)
(*     FlowTake    `case action := <-response`: probeAction (evaluate the  *)
(*                 conditions), flowAction (store the answer's results,    *)
(*                 evaluate the sequence flows, FlowTrace, start the       *)
(*                 additional flows, move on / terminate), completeAction  *)
(*     FlowReport  a.probeReport(results): blocking send to the inbox      *)
(*   node goroutine (gateway_*.go / event_*.go / activity.go run loops)    *)
(*     NodeStep    one message taken from the inbox and handled            *)
(*     NodeEmit    the trace a gateway sends AFTER it has answered         *)
(*                 (IncomingFlowProcessedTrace): the node goroutine is     *)
(*                 busy until the tracer has taken it                      *)
(*     Resend      exclusive gateway: `go func() { gw.mch <- m }()` for a  *)
(*                 probe report that overtook the flow's second request    *)
(*   process.go                                                            *)
(*     Trigger     StartWith: monitor creation (subscribe + lock, once),   *)
(*                 start message into the start event's inbox              *)
(*     MonTake / MonUnsub / MonCease   the cease-flow monitor's phases     *)
(*     WaitCall / HelperLock / WaitReturn / WaitTimeout  WaitUntilComplete *)
(*   environment                                                           *)
(*     Answer      TaskTrace.Do with a payload (the Do/forward/response    *)
(*                 relay chain has no branching and is one step here; its  *)
(*                 own interleavings are the subject of TaskDo.tla)        *)
(*                                                                         *)
(* The TokenGame state `s` runs along as a SHADOW: every Answer is applied *)
(* to the game as a macro step (answer ; closure).  The game is then at    *)
(* least as far as the engine, so                                          *)
(*   - safety:   the engine never requested / ended / reported more than   *)
(*               the game (EngineWithinGame), cease implies the game is    *)
(*               complete (CeaseOnlyWhenComplete), a wait returns true     *)
(*               only after the cease trace (WaitTrueOnlyAfterCease);      *)
(*   - progress: a state in which no goroutine can move and no request is  *)
(*               pending shows exactly the game's observables, and has     *)
(*               ceased iff the game has (QuiescentAgrees) -- a token      *)
(*               lost in an inbox, a join that never releases or a monitor *)
(*               that misses a start event is a counterexample.            *)
(* TLC visits every interleaving of the goroutines for each program of the *)
(* family.  EngineTrace.tla validates the real engine's own trace stream   *)
(* against this module (fidelity).                                         *)
(*                                                                         *)
(* Abstractions (deliberate, named): the tracer is a sequencer (Send never *)
(* blocks for good: subscribers drain); the monitor's subscription buffer  *)
(* holds only the traces the monitor reacts to; activity harness + generic *)
(* task + task-trace relay are one node; cancellation is one environment   *)
(* step (ECancel) after which every goroutine has its ctx.Done exit edge   *)
(* (CancelLeavesNothing; the environment stops answering); inclusive       *)
(* gateways, events and sub-processes are not modelled at this level.      *)
(***************************************************************************)
EXTENDS TokenGame

CONSTANTS MaxFlows,   \* bound on flow goroutines ever created in a run
          NWaiters,   \* number of WaitUntilComplete callers
          MayCancel,  \* the instance's context may be cancelled (at any point after StartAll returned)
          CtxSends    \* TRUE: sends into a node's inbox give up when the context is done (the code
                      \* as it is now); FALSE: bare sends (the pinned code, finding F28)

VARIABLE e            \* the engine state (one record, functional style)

Flows == 1..MaxFlows

(* actions a node hands to a flow through its response channel *)
NoAct      == [k |-> "none",     seqs |-> <<>>, uncond |-> FALSE, pl |-> <<>>]
ProbeAct(q)== [k |-> "probe",    seqs |-> q,    uncond |-> FALSE, pl |-> <<>>]
FlowAct(q, u, pl) == [k |-> "flow", seqs |-> q, uncond |-> u,    pl |-> pl]
ComplAct   == [k |-> "complete", seqs |-> <<>>, uncond |-> FALSE, pl |-> <<>>]

Cap(i, n) == 2 * Len(Node(i, n).in) + 1       \* make(chan imessage, len(incoming)*2+1)

Msg(t, f, r) == [t |-> t, f |-> f, r |-> r]

ModelledKinds == {"start", "end", "task", "xor", "and"}
Supported(i) == \A n \in NodeIdsOf(i) : Node(i, n).kind \in ModelledKinds /\ Node(i, n).scope = ""

NonDefault(i, n) == SelectSeq(Node(i, n).out, LAMBDA f : f # Node(i, n).dflt)

EInit(i) ==
  [p      |-> i,
   fl     |-> [f \in Flows |-> [pc |-> "unborn", node |-> "", via |-> "", res |-> <<>>]],
   nf     |-> 0,
   resp   |-> [f \in Flows |-> NoAct],
   inbox  |-> [n \in NodeIdsOf(i) |-> <<>>],
   resend |-> {},                                   \* <<node, msg>> goroutines blocked on gw.mch <- m
   busy   |-> [n \in NodeIdsOf(i) |-> FALSE],       \* node goroutine inside tracer.Send after answering
   par    |-> [n \in NodesOfKind(i, "and") |-> [aw |-> <<>>]],      \* parked tokens: [f, via] in arrival order
   xp     |-> [n \in NodesOfKind(i, "xor") |-> [f \in Flows |-> "none"]],
   act    |-> [n \in NodesOfKind(i, "start") |-> FALSE],
   reqs   |-> {},                                   \* [task, occ, f] requests not yet answered
   reqn   |-> [n \in NodesOfKind(i, "task") |-> 0],
   ended  |-> [n \in NodesOfKind(i, "end") |-> 0],
   errs   |-> [n \in NodesOfKind(i, "xor") |-> 0],
   inv    |-> 0,                                    \* InvalidStateError reports (never expected)
   vars   |-> Vars0(i),
   wg     |-> 0,
   ctx    |-> FALSE,                                \* the instance's context is cancelled
   up     |-> [n \in NodeIdsOf(i) |-> FALSE],       \* the node's goroutine has been started (once.Do)
   dead   |-> [n \in NodeIdsOf(i) |-> FALSE],       \* ... and has returned (ctx.Done)
   ncanc  |-> 0,                                    \* flows that ended by cancellation
   mon    |-> [pc |-> "none", n |-> 0, q |-> <<>>, sub |-> FALSE],
   lock   |-> "free",
   ceased |-> FALSE,
   todo   |-> SetToSeq(StartsOf(i, "")),            \* start events StartAll still has to trigger
   wt     |-> [w \in 1..NWaiters |-> [pc |-> "idle", sig |-> FALSE, h |-> "none"]]]

ELabA(ev, f, node, arg) == [ev |-> ev, f |-> f, node |-> node, arg |-> arg]
ELab(ev, f, node) == ELabA(ev, f, node, <<>>)
EMv(lab, st) == [lab |-> lab, e |-> st]
ETau(name) == ELab(name, 0, "")

-----------------------------------------------------------------------------
(* flow goroutines *)

Spawn(st, node, via) ==
  \* newFlow + Start: wait group and sender registered by the CALLER, then `go`
  LET f == st.nf + 1 IN
  [st EXCEPT !.nf = f, !.wg = @ + 1,
             !.fl[f] = [pc |-> "new", node |-> node, via |-> via, res |-> <<>>]]

FlowBegin(st, f) ==
  EMv(ELab("newflow", f, st.fl[f].node), [st EXCEPT !.fl[f].pc = "ask"])

FlowAsk(st, f) ==
  LET n == st.fl[f].node IN
  EMv(ETau("ask"),
      [st EXCEPT !.inbox[n] = Append(@, Msg("next", f, <<>>)), !.fl[f].pc = "wait", !.up[n] = TRUE])

\* a trace whose source is a top-level start event reaches the monitor's subscription
MonSees(st, node) ==
  IF st.mon.sub /\ Node(st.p, node).kind = "start"
  THEN [st EXCEPT !.mon.q = Append(@, node)] ELSE st

Finish(st, f) == [st EXCEPT !.fl[f].pc = "done", !.wg = @ - 1]

FlowTake(st, f) ==
  LET i  == st.p
      a  == st.resp[f]
      n  == Node(i, st.fl[f].node)
      s0 == [st EXCEPT !.resp[f] = NoAct]
  IN
  CASE a.k = "probe" ->
         LET r == SelectSeq(a.seqs, LAMBDA q : EvalCond(Flow(i, q).cond, st.vars)) IN
         EMv(ETau("probed"), [s0 EXCEPT !.fl[f].pc = "report", !.fl[f].res = r])
    [] a.k = "complete" ->
         \* CompletionTrace, TerminationTrace, return
         EMv(ELab("completion", f, n.id),
             Finish(IF n.kind = "end" THEN [s0 EXCEPT !.ended[n.id] = @ + 1] ELSE s0, f))
    [] a.k = "flow" ->
         LET s1  == IF n.kind = "task" THEN [s0 EXCEPT !.vars = Store(i, n, @, a.pl)] ELSE s0
             ok(q) == a.uncond \/ EvalCond(Flow(i, q).cond, s1.vars)
         IN
         IF a.seqs = <<>> THEN EMv(ETau("nowhere"), Finish(s1, f))
         ELSE
         LET first == a.seqs[1]
             rest  == SelectSeq(Tail(a.seqs), ok)
             RECURSIVE SpawnAll(_, _)
             SpawnAll(x, q) == IF q = <<>> THEN x ELSE SpawnAll(Spawn(x, Flow(i, q[1]).dst, q[1]), Tail(q))
             s2 == MonSees(s1, n.id)
         IN
         IF ok(first)
         THEN EMv(ELabA("flowtrace", f, n.id, <<first>> \o rest),
                  SpawnAll([s2 EXCEPT !.fl[f].node = Flow(i, first).dst, !.fl[f].via = first, !.fl[f].pc = "ask"], rest))
         ELSE IF rest # <<>>
         THEN \* the token's own sequence flow is not taken: only the forked flows go on
              \* (FlowTrace, then TerminationTrace)
              EMv(ELabA("flowtrace+termination", f, n.id, rest), Finish(SpawnAll(s2, rest), f))
         ELSE EMv(ELab("termination", f, n.id), Finish(s2, f))
    [] OTHER -> EMv(ETau("bad"), st)

FlowReport(st, f) ==
  LET n == st.fl[f].node IN
  EMv(ETau("report"),
      [st EXCEPT !.inbox[n] = Append(@, Msg("report", f, st.fl[f].res)),
                 !.fl[f].pc = "ask", !.fl[f].res = <<>>])

HasRoom(st, n) == Len(st.inbox[n]) < Cap(st.p, n)

\* `case <-ctx.Done():` of the flow loop: CancellationFlowTrace, return (wait group, sender)
FlowCancel(st, f) ==
  EMv(ELab("cancelflow", f, st.fl[f].node), [Finish(st, f) EXCEPT !.ncanc = @ + 1])
\* a probe report that is given up (the gateway's loop has gone): back to the loop top
FlowSkipReport(st, f) ==
  EMv(ETau("skipreport"), [st EXCEPT !.fl[f].pc = "ask", !.fl[f].res = <<>>])

FlowMoves(st) ==
  UNION { CASE st.fl[f].pc = "new"    -> {FlowBegin(st, f)}
            \* NextAction: select { inbox <- request | ctx.Done }, then the loop's own select
            [] st.fl[f].pc = "ask"    -> (IF HasRoom(st, st.fl[f].node) THEN {FlowAsk(st, f)} ELSE {})
                                         \cup (IF st.ctx /\ CtxSends THEN {FlowCancel(st, f)} ELSE {})
            [] st.fl[f].pc = "wait"   -> (IF st.resp[f].k # "none" THEN {FlowTake(st, f)} ELSE {})
                                         \cup (IF st.ctx THEN {FlowCancel(st, f)} ELSE {})
            [] st.fl[f].pc = "report" -> (IF HasRoom(st, st.fl[f].node) THEN {FlowReport(st, f)} ELSE {})
                                         \cup (IF st.ctx /\ CtxSends THEN {FlowSkipReport(st, f)} ELSE {})
            [] OTHER -> {}
          : f \in 1..st.nf }

-----------------------------------------------------------------------------
(* node goroutines *)

\* gateway.go distributeFlows: awaiting response channels x outgoing sequence flows
Distribute(st, aw, seqs) ==
  LET A == Len(aw)
      S == Len(seqs)
      actOf(j) == LET re == IF j = A THEN S ELSE j IN
                  IF re <= S /\ j - 1 < re THEN FlowAct(SubSeq(seqs, j, re), TRUE, <<>>) ELSE ComplAct
  IN [st EXCEPT !.resp = [f \in Flows |->
        IF \E j \in 1..A : aw[j] = f THEN actOf(CHOOSE j \in 1..A : aw[j] = f) ELSE @[f]]]

NodeStep(st, nid) ==
  LET i  == st.p
      n  == Node(i, nid)
      m  == Head(st.inbox[nid])
      s0 == [st EXCEPT !.inbox[nid] = Tail(@)]
  IN
  CASE n.kind = "start" ->
         IF m.t = "start" THEN EMv(ETau("started"), Spawn(s0, nid, ""))
         ELSE IF ~st.act[nid]
         THEN EMv(ETau("startflow"), [s0 EXCEPT !.act[nid] = TRUE, !.resp[m.f] = FlowAct(n.out, FALSE, <<>>)])
         ELSE EMv(ETau("startfused"), [s0 EXCEPT !.resp[m.f] = ComplAct])
    [] n.kind = "end" ->
         EMv(ETau("endanswer"), [s0 EXCEPT !.resp[m.f] = ComplAct])
    [] n.kind = "task" ->
         \* harness.run -> genericTask.run -> request goroutine: TaskTrace
         LET k == st.reqn[nid] + 1 IN
         EMv(ELab("req", m.f, nid),
             [s0 EXCEPT !.reqn[nid] = k, !.reqs = @ \cup {[task |-> nid, occ |-> k, f |-> m.f]}])
    [] n.kind = "and" ->
         \* gateway_parallel.go: the token is parked together with the incoming sequence flow it
         \* arrived over; once a token is parked on EVERY incoming flow the oldest of each is
         \* released (distributeFlows), later arrivals over the same flow stay parked
         LET aw    == Append(st.par[nid].aw, [f |-> m.f, via |-> st.fl[m.f].via])
             have(v) == \E j \in DOMAIN aw : aw[j].via = v
             firstOf(v) == Min({j \in DOMAIN aw : aw[j].via = v})
         IN
         IF \A k \in DOMAIN n.in : have(n.in[k])
         THEN LET picked == {firstOf(n.in[k]) : k \in DOMAIN n.in}
                  chosen == SelectSeq([j \in DOMAIN aw |-> IF j \in picked THEN aw[j].f ELSE 0], LAMBDA x : x # 0)
                  rest   == SelectSeq([j \in DOMAIN aw |-> IF j \in picked THEN [f |-> 0, via |-> ""] ELSE aw[j]], LAMBDA x : x.f # 0)
              IN  EMv(ETau("andrelease"),
                      [Distribute(s0, chosen, n.out) EXCEPT !.par[nid] = [aw |-> rest], !.busy[nid] = TRUE])
         ELSE EMv(ETau("andpark"), [s0 EXCEPT !.par[nid] = [aw |-> aw], !.busy[nid] = TRUE])
    [] n.kind = "xor" ->
         IF m.t = "next"
         THEN IF st.xp[nid][m.f] # "none"
              THEN EMv(ETau("xorsecond"), [s0 EXCEPT !.xp[nid][m.f] = "set"])
              ELSE EMv(ETau("xorprobe"), [s0 EXCEPT !.xp[nid][m.f] = "nil", !.resp[m.f] = ProbeAct(NonDefault(i, nid))])
         ELSE \* probing report
              IF st.xp[nid][m.f] = "nil"
              THEN \* no next action yet: reschedule
                   EMv(ETau("xorresched"), [s0 EXCEPT !.resend = @ \cup {<<nid, m>>}])
              ELSE IF st.xp[nid][m.f] = "set"
              THEN LET s1 == [s0 EXCEPT !.xp[nid][m.f] = "none"] IN
                   IF m.r # <<>>
                   THEN EMv(ETau("xorroute"), [s1 EXCEPT !.resp[m.f] = FlowAct(<<m.r[1]>>, TRUE, <<>>)])
                   ELSE IF n.dflt # ""
                   THEN EMv(ETau("xordefault"), [s1 EXCEPT !.resp[m.f] = FlowAct(<<n.dflt>>, TRUE, <<>>)])
                   ELSE EMv(ELab("error", m.f, nid), [s1 EXCEPT !.errs[nid] = @ + 1])
              ELSE EMv(ELab("invalidstate", m.f, nid), [s0 EXCEPT !.inv = @ + 1])
    [] OTHER -> EMv(ETau("bad"), st)

NodeEmit(st, nid) == EMv(ELab("ifp", 0, nid), [st EXCEPT !.busy[nid] = FALSE])

Resend(st, x) ==
  EMv(ETau("resend"), [st EXCEPT !.inbox[x[1]] = Append(@, x[2]), !.resend = @ \ {x}])

\* `case <-ctx.Done():` of a node's run loop: the goroutine returns, its inbox is not drained any more
NodeExit(st, nid) == EMv(ELab("cancelnode", 0, nid), [st EXCEPT !.dead[nid] = TRUE])
ResendDrop(st, x) == EMv(ETau("resenddrop"), [st EXCEPT !.resend = @ \ {x}])

NodeMoves(st) ==
  {NodeStep(st, n) : n \in {n \in NodeIdsOf(st.p) : ~st.busy[n] /\ ~st.dead[n] /\ st.inbox[n] # <<>>}}
  \cup {NodeEmit(st, n) : n \in {n \in NodeIdsOf(st.p) : st.busy[n]}}
  \cup {Resend(st, x) : x \in {x \in st.resend : HasRoom(st, x[1])}}
  \cup (IF st.ctx
        THEN {NodeExit(st, n) : n \in {n \in NodeIdsOf(st.p) : st.up[n] /\ ~st.busy[n] /\ ~st.dead[n]}}
             \cup (IF CtxSends THEN {ResendDrop(st, x) : x \in st.resend} ELSE {})
        ELSE {})

-----------------------------------------------------------------------------
(* process.go: StartAll / StartWith, the cease-flow monitor, WaitUntilComplete *)

NStarts(i) == Cardinality(StartsOf(i, ""))

Trigger(st) ==
  LET ev == Head(st.todo)
      \* p.monitorOnce.Do: subscribe and lock synchronously, then `go`
      s1 == IF st.mon.pc = "none"
            THEN [st EXCEPT !.mon = [pc |-> "p1", n |-> 0, q |-> <<>>, sub |-> TRUE], !.lock = "mon"]
            ELSE st
  IN EMv(ELab("trigger", 0, ev),
         [s1 EXCEPT !.inbox[ev] = Append(@, Msg("start", 0, <<>>)), !.todo = Tail(@), !.up[ev] = TRUE])

\* the monitor gives up when the context is done (unsubscribe, unlock, no cease trace)
MonQuit(st) == EMv(ETau("monquit"), [st EXCEPT !.mon.pc = "done", !.mon.sub = FALSE, !.mon.q = <<>>, !.lock = "free"])
MonMoves(st) ==
  CASE st.mon.pc = "p1" ->
         (IF st.mon.n = NStarts(st.p) THEN {EMv(ETau("monunsub"), [st EXCEPT !.mon.pc = "p2", !.mon.sub = FALSE, !.mon.q = <<>>])}
          ELSE IF st.mon.q # <<>> THEN {EMv(ETau("montake"), [st EXCEPT !.mon.q = Tail(@), !.mon.n = @ + 1])}
          ELSE {})
         \cup (IF st.ctx /\ st.mon.n # NStarts(st.p) THEN {MonQuit(st)} ELSE {})
    [] st.mon.pc = "p2" ->
         \* select { <-waitIsOver: cease | <-ctx.Done() }: when both are ready either is taken
         (IF st.wg = 0
          THEN {EMv(ELab("cease", 0, ""), [st EXCEPT !.mon.pc = "done", !.ceased = TRUE, !.lock = "free"])}
          ELSE {})
         \cup (IF st.ctx THEN {MonQuit(st)} ELSE {})
    [] OTHER -> {}

\* WaitUntilComplete: helper goroutine takes the completion lock and signals
WaitMoves(st) ==
  UNION { CASE st.wt[w].h = "locking" /\ st.lock = "free" ->
                 {EMv(ETau("helperlock"), [st EXCEPT !.wt[w].h = "done", !.wt[w].sig = TRUE])}
            [] OTHER -> {}
          : w \in 1..NWaiters }
  \cup
  UNION { IF st.wt[w].pc = "waiting" /\ st.wt[w].sig
          THEN {EMv(ELab("waittrue", w, ""), [st EXCEPT !.wt[w].pc = "true"])}
          ELSE {}
          : w \in 1..NWaiters }

EInternal(st) ==
  FlowMoves(st) \cup NodeMoves(st) \cup MonMoves(st) \cup WaitMoves(st)
  \cup (IF st.todo # <<>> /\ HasRoom(st, Head(st.todo)) THEN {Trigger(st)} ELSE {})

-----------------------------------------------------------------------------
EngInit == \E i \in {i \in 1..NProg : Supported(i)} :
           /\ e = EInit(i)
           /\ s = CloseQuiet(Started(InitState(i)))

EStep == \E m \in EInternal(e) : e' = m.e /\ UNCHANGED s

\* the context is cancelled (after StartAll has returned); the environment stops answering
ECancel ==
  /\ MayCancel /\ ~e.ctx /\ e.todo = <<>>
  /\ e' = [e EXCEPT !.ctx = TRUE]
  /\ UNCHANGED s

EAnswer ==
  /\ ~e.ctx
  /\ \E r \in e.reqs : \E pl \in Payloads(e.p, Node(e.p, r.task)) :
    /\ e' = [e EXCEPT !.reqs = @ \ {r},
                      !.resp[r.f] = FlowAct(Node(e.p, r.task).out, FALSE, pl)]
    /\ \E t \in ReqToks(s) : t.at = r.task /\ t.occ = r.occ /\ s' = CloseQuiet(AnswerOK(s, t, pl))

\* WaitUntilComplete is called (after StartAll has returned) and may give up
WaitCall ==
  /\ e.todo = <<>>
  /\ \E w \in 1..NWaiters : e.wt[w].pc = "idle" /\
        e' = [e EXCEPT !.wt[w] = [pc |-> "waiting", sig |-> FALSE, h |-> "locking"]]
  /\ UNCHANGED s
WaitTimeout ==
  /\ \E w \in 1..NWaiters : e.wt[w].pc = "waiting" /\ e' = [e EXCEPT !.wt[w].pc = "false"]
  /\ UNCHANGED s
\* a caller whose wait ended may wait again (fresh helper; the old one may still be around:
\* its signal channel is private and buffered, so it ends as soon as it gets the lock)
WaitAgain ==
  /\ \E w \in 1..NWaiters : e.wt[w].pc = "false" /\ e.wt[w].h = "done" /\
        e' = [e EXCEPT !.wt[w] = [pc |-> "waiting", sig |-> FALSE, h |-> "locking"]]
  /\ UNCHANGED s

Next == EStep \/ EAnswer \/ ECancel \/ WaitCall \/ WaitTimeout \/ WaitAgain
Spec == EngInit /\ [][Next]_<<e, s>>

-----------------------------------------------------------------------------
(* properties *)

LiveFlows(st) == {f \in 1..st.nf : st.fl[f].pc # "done"}

ETypeOK ==
  /\ e.nf <= MaxFlows
  /\ e.wg = Cardinality(LiveFlows(e))                 \* the wait group counts exactly the live tokens
  /\ \A n \in NodeIdsOf(e.p) : Len(e.inbox[n]) <= Cap(e.p, n)

\* the engine never shows more than the token game allows
EngineWithinGame ==
  /\ \A n \in DOMAIN e.reqn  : e.reqn[n]  <= s.reqn[n]
  /\ \A n \in DOMAIN e.ended : e.ended[n] <= s.ended[n]
  /\ \A n \in DOMAIN e.errs  : e.errs[n]  <= s.errs[n]
  /\ \A r \in e.reqs : \E t \in ReqToks(s) : t.at = r.task /\ t.occ = r.occ

SameObservables ==
  /\ \A n \in DOMAIN e.reqn  : e.reqn[n]  = s.reqn[n]
  /\ \A n \in DOMAIN e.ended : e.ended[n] = s.ended[n]
  /\ \A n \in DOMAIN e.errs  : e.errs[n]  = s.errs[n]

\* the cease trace: only when every start event fired and no token remains, after everything else
\* (not claimed once the context is cancelled: the monitor's last select may see the wait group
\* drained by cancelled flows and the context at the same time and take the cease branch -- a
\* model-only observation, no real execution showed it)
CeaseOnlyWhenComplete == (e.ceased /\ ~e.ctx) => (s.ceased /\ SameObservables /\ e.wg = 0 /\ e.reqs = {})

\* WaitUntilComplete returns true only after the cease trace
WaitTrueOnlyAfterCease == \A w \in 1..NWaiters : (e.wt[w].pc = "true" \/ e.wt[w].sig) => e.ceased

\* nothing can move and nothing is pending: the engine shows exactly what the game shows
Quiescent == EInternal(e) = {} /\ e.reqs = {}
QuiescentAgrees ==
  (Quiescent /\ ~e.ctx) =>
               /\ SameObservables
               /\ e.ceased <=> s.ceased
               \* every waiter still waiting has been signalled if the instance completed
               /\ e.ceased => \A w \in 1..NWaiters : e.wt[w].pc = "waiting" => e.wt[w].sig

\* C07 at level M: once the context is cancelled and nothing can move any more, every goroutine
\* has returned -- no flow is left blocked on an inbox or a response, no re-send goroutine, the
\* monitor has gone and released the completion lock.  With CtxSends = FALSE TLC finds the flow
\* blocked for ever on the full inbox of a gateway whose loop has returned (finding F28).
CancelLeavesNothing ==
  (e.ctx /\ EInternal(e) = {}) =>
     /\ \A f \in 1..e.nf : e.fl[f].pc = "done"
     /\ e.wg = 0
     /\ e.resend = {}
     /\ e.mon.pc \in {"none", "done"} /\ e.lock = "free"
     /\ \A n \in NodeIdsOf(e.p) : e.up[n] => e.dead[n]

\* between two messages a parallel gateway never holds a complete set of parked tokens
ParCounter == \A n \in DOMAIN e.par :
   ~\A k \in DOMAIN Node(e.p, n).in : \E j \in DOMAIN e.par[n].aw : e.par[n].aw[j].via = Node(e.p, n).in[k]

\* never an InvalidStateError at an exclusive gateway (report for an unknown flow)
NoInvalidState == e.inv = 0

EView == e
=============================================================================
