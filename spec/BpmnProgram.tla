--------------------------- MODULE BpmnProgram ---------------------------
(***************************************************************************)
(* Abstract syntax of BPMN programs, shared by every engine-level spec.    *)
(* Programs are DATA: a JSON array of program records written by the Go    *)
(* generator (harness/internal/prog) and read here, so that TLC and the    *)
(* real engine are always given exactly the same program.                  *)
(*                                                                         *)
(*   node : [id, kind, scope, in, out, dflt, writes, evs, parallel,        *)
(*           attached, intr, retries]                                      *)
(*   kind \in {start,end,task,xor,and,or,evgw,catch,throw,sub,boundary}    *)
(*   flow : [id, src, dst, cond]      cond : [k, v, c]                     *)
(*   cond.k \in {none,informal,true,false,lt,le,eq,ne,ge,gt}               *)
(***************************************************************************)
EXTENDS Integers, Sequences, FiniteSets, TLC, Json, SequencesExt

CONSTANT ProgFile

Programs == JsonDeserialize(ProgFile)
NProg    == Len(Programs)

SeqRange(q) == {q[i] : i \in DOMAIN q}

NodeIdsOf(i) == {Programs[i].nodes[k].id : k \in DOMAIN Programs[i].nodes}
FlowIdsOf(i) == {Programs[i].flows[k].id : k \in DOMAIN Programs[i].flows}

\* constant-level lookup tables (TLC evaluates them once)
NodeMap == [i \in 1..NProg |->
              [id \in NodeIdsOf(i) |->
                 CHOOSE n \in SeqRange(Programs[i].nodes) : n.id = id]]
FlowMap == [i \in 1..NProg |->
              [id \in FlowIdsOf(i) |->
                 CHOOSE f \in SeqRange(Programs[i].flows) : f.id = id]]

Node(i, id) == NodeMap[i][id]
Flow(i, id) == FlowMap[i][id]
Dst(i, f)   == Node(i, Flow(i, f).dst)
Src(i, f)   == Node(i, Flow(i, f).src)

NodesOfKind(i, k)  == {id \in NodeIdsOf(i) : Node(i, id).kind = k}
NodesInScope(i, sc) == {id \in NodeIdsOf(i) : Node(i, id).scope = sc}
StartsOf(i, sc)    == {id \in NodesInScope(i, sc) : Node(i, id).kind = "start"}
BoundariesOf(i, a) == {id \in NodeIdsOf(i) : Node(i, id).kind = "boundary" /\ Node(i, id).attached = a}

Vars0(i) == Programs[i].vars0
DomOf(i) == Programs[i].dom

(***************************************************************************)
(* Conditions.  A variable that is absent from the store makes a formal    *)
(* condition fail to evaluate: the engine reports an error and the flow is *)
(* not taken, which is what FALSE gives here (generators never do this).   *)
(***************************************************************************)
EvalCond(c, vars) ==
  CASE c.k \in {"none", "informal", "true"} -> TRUE
    [] c.k = "false" -> FALSE
    [] OTHER ->
         IF c.v \notin DOMAIN vars THEN FALSE
         ELSE LET x == vars[c.v] IN
              CASE c.k = "lt" -> x < c.c
                [] c.k = "le" -> x <= c.c
                [] c.k = "eq" -> x = c.c
                [] c.k = "ne" -> x # c.c
                [] c.k = "ge" -> x >= c.c
                [] c.k = "gt" -> x > c.c

\* outgoing flows (in list order) whose condition holds
TrueOut(i, n, vars) == SelectSeq(n.out, LAMBDA f : EvalCond(Flow(i, f).cond, vars))
\* the same without the default flow (gateways evaluate only non-default flows)
TrueNonDefault(i, n, vars) ==
  SelectSeq(n.out, LAMBDA f : f # n.dflt /\ EvalCond(Flow(i, f).cond, vars))

(***************************************************************************)
(* Structural well-formedness assumed by the properties.                   *)
(***************************************************************************)
WellFormed(i) ==
  /\ Cardinality(NodeIdsOf(i)) = Len(Programs[i].nodes)
  /\ Cardinality(FlowIdsOf(i)) = Len(Programs[i].flows)
  /\ NodeIdsOf(i) \cap FlowIdsOf(i) = {}
  /\ \A f \in FlowIdsOf(i) :
        /\ Flow(i, f).src \in NodeIdsOf(i) /\ Flow(i, f).dst \in NodeIdsOf(i)
        /\ f \in SeqRange(Src(i, f).out) /\ f \in SeqRange(Dst(i, f).in)
  /\ \A id \in NodeIdsOf(i) :
        LET n == Node(i, id) IN
        /\ SeqRange(n.in) \cup SeqRange(n.out) \subseteq FlowIdsOf(i)
        /\ n.kind = "start" => n.in = <<>>
        /\ n.kind = "end" => n.out = <<>>
        /\ n.dflt # "" => n.dflt \in SeqRange(n.out)
        /\ n.scope # "" => n.scope \in NodesOfKind(i, "sub")

AllWellFormed == \A i \in 1..NProg : WellFormed(i)
=============================================================================
