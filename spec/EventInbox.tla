----------------------------- MODULE EventInbox -----------------------------
(***************************************************************************)
(* C11 / C07 (level M): how an event handed to an instance reaches the     *)
(* event nodes -- Process.ConsumeEvent forwards it, one consumer after the *)
(* other, into the bounded inbox of every start, catch and throw event;    *)
(* an inbox is drained by the node's run loop only.  One action per        *)
(* critical section.                                                       *)
(*                                                                         *)
(*   node n  (event_start.go / event_catch.go / event_throw.go)            *)
(*     kind      "start": loop runs from StartAll on                       *)
(*               "catch": loop starts with the first token; ConsumeEvent   *)
(*                        drops the event at once unless `activated`       *)
(*               "throw": loop starts with the first token                 *)
(*     Reach(n)  a token reaches the node: once.Do { go run } ; request    *)
(*     Take(n)   the run loop takes one message from the inbox             *)
(*     Exit(n)   `case <-ctx.Done(): return` of the run loop               *)
(*   caller c (Process.ConsumeEvent -> event.ForwardEvent)                 *)
(*     Forward(c)  hands the event to the next consumer in the list:       *)
(*                 Guarded = TRUE  (the code as it is now)                 *)
(*                    loop running : select { inbox <- ev | <-stopped }    *)
(*                    not running  : select { inbox <- ev | default }      *)
(*                 Guarded = FALSE (the pinned code): bare `inbox <- ev`   *)
(*   environment:  Cancel                                                  *)
(*                                                                         *)
(* Property: no ConsumeEvent call is ever stuck -- in every state a caller *)
(* that has not returned can move, or something it waits for can           *)
(* (NoStuckCaller, deadlock check, and CallersReturn under fairness).      *)
(* With Guarded = FALSE TLC finds both findings: F12b (a throw event no    *)
(* token has reached: the inbox fills, the next delivery blocks for ever)  *)
(* and F29 (after Cancel the loops have returned: the next delivery        *)
(* blocks for ever).                                                       *)
(***************************************************************************)
EXTENDS Integers, Sequences, FiniteSets, TLC

CONSTANTS Nodes,      \* sequence of node kinds, in consumer-registration order, e.g. <<"start", "throw", "catch">>
          Cap,        \* inbox capacity of every node (2 * incoming + 1; 1 for a start event)
          Callers,    \* ConsumeEvent calls
          Guarded, MayCancel

N == Len(Nodes)
VARIABLES loop,     \* loop[n]: "none" | "running" | "stopped"
          inbox,    \* inbox[n]: number of messages queued
          act,      \* act[n]: catch event `activated`
          cpc,      \* cpc[c]: index of the consumer the caller is about to hand the event to; N + 1: returned
          ctx
vars == <<loop, inbox, act, cpc, ctx>>

Init == /\ loop = [n \in 1..N |-> IF Nodes[n] = "start" THEN "running" ELSE "none"]
        /\ inbox = [n \in 1..N |-> 0] /\ act = [n \in 1..N |-> FALSE]
        /\ cpc = [c \in Callers |-> 1] /\ ctx = FALSE

CapOf(n) == IF Nodes[n] = "start" THEN 1 ELSE Cap

\* a token reaches a catch / throw event: the loop is started (once), the request queued
Reach(n) ==
  /\ Nodes[n] # "start" /\ loop[n] = "none" /\ ~ctx
  /\ inbox[n] < CapOf(n)
  /\ loop' = [loop EXCEPT ![n] = "running"]
  /\ inbox' = [inbox EXCEPT ![n] = @ + 1]
  /\ act' = [act EXCEPT ![n] = (Nodes[n] = "catch")]
  /\ UNCHANGED <<cpc, ctx>>

Take(n) ==
  /\ loop[n] = "running" /\ inbox[n] > 0
  /\ inbox' = [inbox EXCEPT ![n] = @ - 1]
  /\ UNCHANGED <<loop, act, cpc, ctx>>

Exit(n) ==
  /\ ctx /\ loop[n] = "running"
  /\ loop' = [loop EXCEPT ![n] = "stopped"]
  /\ UNCHANGED <<inbox, act, cpc, ctx>>

Forward(c) ==
  /\ cpc[c] \in 1..N
  /\ LET n == cpc[c] IN
     \/ \* a catch event nobody listens at drops the event at once
        /\ Nodes[n] = "catch" /\ ~act[n]
        /\ UNCHANGED inbox
     \/ \* there is room
        /\ ~(Nodes[n] = "catch" /\ ~act[n])
        /\ inbox[n] < CapOf(n)
        /\ inbox' = [inbox EXCEPT ![n] = @ + 1]
     \/ \* no room: give up only where the code does
        /\ ~(Nodes[n] = "catch" /\ ~act[n])
        /\ inbox[n] >= CapOf(n)
        /\ Guarded
        /\ \/ loop[n] = "stopped"
           \/ (loop[n] = "none" /\ Nodes[n] # "catch")
        /\ UNCHANGED inbox
  /\ cpc' = [cpc EXCEPT ![c] = @ + 1]
  /\ UNCHANGED <<loop, act, ctx>>

Cancel == /\ MayCancel /\ ~ctx /\ ctx' = TRUE /\ UNCHANGED <<loop, inbox, act, cpc>>

AllReturned == \A c \in Callers : cpc[c] = N + 1
Finished == AllReturned /\ UNCHANGED vars

Next == \/ \E n \in 1..N : Reach(n) \/ Take(n) \/ Exit(n)
        \/ \E c \in Callers : Forward(c)
        \/ Cancel \/ Finished

Spec == Init /\ [][Next]_vars
        /\ \A c \in Callers : WF_vars(Forward(c))
        /\ \A n \in 1..N : WF_vars(Take(n)) /\ WF_vars(Exit(n))

TypeOK == \A n \in 1..N : inbox[n] \in 0..CapOf(n)

\* a caller facing a full inbox can get on: the loop is draining it, or the code gives up
NoStuckCaller ==
  \A c \in Callers : cpc[c] \in 1..N =>
     LET n == cpc[c] IN
     \/ (Nodes[n] = "catch" /\ ~act[n])
     \/ inbox[n] < CapOf(n)
     \/ loop[n] = "running"
     \/ (Guarded /\ (loop[n] = "stopped" \/ (loop[n] = "none" /\ Nodes[n] # "catch")))
CallersReturn == <>AllReturned
=============================================================================
