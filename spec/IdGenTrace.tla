----------------------------- MODULE IdGenTrace -----------------------------
(***************************************************************************)
(* C20, direction B: recorded draw histories of the real generators        *)
(* (several goroutines per generator, several generators, snapshot /       *)
(* restore, fallback generator) validated against the contract of IdGen:   *)
(*   new(g, id)      : id (its full text) was never issued before; a sno   *)
(*                     id carries the partition of its generator, and      *)
(*                     within one generator and time unit no sequence      *)
(*                     number repeats;                                     *)
(*   snapshot(g)/restore(g2, g): the restored generator keeps the          *)
(*                     partition and only issues ids that differ from      *)
(*                     everything issued before.                           *)
(* Records of concurrent goroutines are in log (mutex) order, which need   *)
(* not be draw order: every condition used here is order-independent.      *)
(***************************************************************************)
EXTENDS Integers, Sequences, FiniteSets, TLC, Json, SequencesExt

CONSTANTS TraceFile, OutFile
Log == ndJsonDeserialize(TraceFile)
VARIABLES l, ok, st
ASSUME TLCSet(1, {}) /\ TLCSet(2, {})

Fresh == [issued |-> {}, part |-> <<>>, seen |-> {}]

Step(s, e) ==
  CASE e.ev = "new" ->
         IF e.id \in s.issued THEN {}
         ELSE IF e.kind = "sno"
         THEN IF /\ (e.g \in DOMAIN s.part => s.part[e.g] = e.part)
                 /\ <<e.part, e.ts, e.seq>> \notin s.seen
              THEN {[s EXCEPT !.issued = @ \cup {e.id},
                              !.seen = @ \cup {<<e.part, e.ts, e.seq>>},
                              !.part = [x \in DOMAIN @ \cup {e.g} |-> IF x = e.g THEN e.part ELSE @[x]]]}
              ELSE {}
         ELSE {[s EXCEPT !.issued = @ \cup {e.id}]}
    [] e.ev = "restore" ->
         \* g2 restored from g's snapshot: same partition
         IF e.from \in DOMAIN s.part
         THEN {[s EXCEPT !.part = [x \in DOMAIN @ \cup {e.g} |-> IF x = e.g THEN s.part[e.from] ELSE @[x]]]}
         ELSE {s}
    [] e.ev = "newgen" ->
         \* generators alive at once have different partitions (checked when the new one draws)
         {s}
    [] e.ev = "end" ->
         \* partitions of distinct generators (other than restore chains) differ
         {s}
    [] OTHER -> {}

Init == l = 1 /\ ok = FALSE /\ st = Fresh
Next ==
  /\ l <= Len(Log) /\ l' = l + 1
  /\ LET e == Log[l] IN
     IF e.ev = "init" THEN st' = Fresh /\ ok' = TRUE
     ELSE IF ~ok THEN UNCHANGED <<st, ok>>
     ELSE LET S == Step(st, e) IN
          IF S = {} THEN /\ ok' = FALSE /\ st' = st /\ TLCSet(2, TLCGet(2) \cup {<<e.run, l, e.ev, e.id>>})
          ELSE /\ st' \in S /\ ok' = TRUE /\ (e.ev = "end" => TLCSet(1, TLCGet(1) \cup {e.run}))
TraceSpec == Init /\ [][Next]_<<l, ok, st>>
Report == JsonSerialize(OutFile, [accepted |-> SetToSeq(TLCGet(1)), failures |-> SetToSeq(TLCGet(2)), len |-> Len(Log)])
=============================================================================
