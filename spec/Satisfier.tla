----------------------------- MODULE Satisfier -----------------------------
(***************************************************************************)
(* C14: the matching state machine of a catch / throw event with several   *)
(* event definitions (pkg/logic/catch_event.go, throw_event.go), as a      *)
(* transcription of the chain algorithm, together with the counting        *)
(* properties a user relies on.                                            *)
(*                                                                         *)
(* Mode = "plain"    : catch event, not parallel-multiple: any match fires *)
(*        "parallel" : parallel-multiple catch event                       *)
(*        "throw"    : throw-event counterpart (always all-of-N)           *)
(* Event 0 matches no definition; event i in 1..N matches definition i.    *)
(***************************************************************************)
EXTENDS Integers, Sequences, FiniteSets, TLC, FiniteSetsExt, Json, SequencesExt

CONSTANTS N, Mode, MaxLen, OutFile

VARIABLES chains,   \* sequence of sets of matched definition indices (partial receipts)
          matched,  \* matched[i] = how often definition i has been matched so far
          fired,    \* how often the event has fired
          len,      \* history length
          last      \* [ev, m, c]: the last event and the result of its Satisfy call

vars == <<chains, matched, fired, len, last>>

AllOf == Mode \in {"parallel", "throw"}

\* the algorithm: returns [m |-> matched?, c |-> chain index (0-based, -1 none), ch |-> chains']
Satisfy(ch, i) ==
  IF i = 0 THEN [m |-> FALSE, c |-> -1, ch |-> ch]
  ELSE IF ~AllOf \/ N = 1 THEN [m |-> TRUE, c |-> 0, ch |-> ch]
  ELSE LET open == {j \in DOMAIN ch : i \notin ch[j]}
       IN  IF open = {}
           THEN [m |-> FALSE, c |-> Len(ch), ch |-> Append(ch, {i})]
           ELSE LET j  == Min(open)
                    cj == ch[j] \cup {i}
                IN  IF cj = 1..N
                    THEN [m |-> TRUE, c |-> j - 1,
                          ch |-> [k \in 1..(Len(ch) - 1) |-> IF k = j THEN ch[Len(ch)] ELSE ch[k]]]
                    ELSE [m |-> FALSE, c |-> j - 1, ch |-> [ch EXCEPT ![j] = cj]]

Init == /\ chains = <<>> /\ matched = [i \in 1..N |-> 0] /\ fired = 0 /\ len = 0
        /\ last = [ev |-> -1, m |-> FALSE, c |-> -1]

Event(i) ==
  /\ len < MaxLen
  /\ LET r == Satisfy(chains, i) IN
     /\ chains' = r.ch
     /\ fired' = IF r.m THEN fired + 1 ELSE fired
     /\ last' = [ev |-> i, m |-> r.m, c |-> r.c]
  /\ matched' = IF i = 0 THEN matched ELSE [matched EXCEPT ![i] = @ + 1]
  /\ len' = len + 1

Next == \E i \in 0..N : Event(i)
Spec == Init /\ [][Next]_vars

(* ------------------------------ properties ------------------------------ *)
MinMatched == Min({matched[i] : i \in 1..N})
SumMatched == LET RECURSIVE S(_) S(k) == IF k = 0 THEN 0 ELSE matched[k] + S(k - 1) IN S(N)

\* plain multiple: fires on every single matching event
PlainFiresOnAnyMatch == (~AllOf \/ N = 1) => fired = SumMatched
\* all-of-N: never more often than the least-matched definition
NeverMoreThanLeast == AllOf => fired <= MinMatched
\* all-of-N: exactly k firings whenever every definition was matched exactly k times
ExactlyKWhenBalanced ==
  (AllOf /\ \A i \in 1..N : matched[i] = matched[1]) => fired = matched[1]
\* partial receipts account for every match that has not fired yet
ChainsAccountForMatches ==
  (AllOf /\ N > 1) =>
     \A i \in 1..N : Cardinality({j \in DOMAIN chains : i \in chains[j]}) = matched[i] - fired
\* a non-matching event changes nothing
NonMatchingIsStutter == [][(len' = len + 1 /\ last'.ev = 0) => (chains' = chains /\ fired' = fired /\ ~last'.m)]_vars

(* ------------- export of the labelled transition relation -------------- *)
ASSUME TLCSet(1, <<>>)
\* every transition, as seen through the satisfier's own state (chains)
RecordEdge ==
  TLCSet(1, Append(TLCGet(1),
     [from |-> [j \in DOMAIN chains |-> SetToSortSeq(chains[j], <)],
      ev   |-> last'.ev,
      m    |-> last'.m, c |-> last'.c,
      to   |-> [j \in DOMAIN chains' |-> SetToSortSeq(chains'[j], <)]]))
DumpEdges == ndJsonSerialize(OutFile, TLCGet(1))
\* the edge export looks at the satisfier state only
EdgeView == chains
\* the export keeps at most 4 open partial receipts (enough for every history of length 9 over 4 definitions that the walk visits)
EdgeBound == Len(chains) <= 4
=============================================================================
