----------------------------- MODULE ProcessSet -----------------------------
(***************************************************************************)
(* C18 (level M): process_set.go, one action per critical section.         *)
(* A process is abstracted to: started -> (emits traces) -> ceases, the    *)
(* cease trace being delivered only to subscribers present at that moment. *)
(*                                                                         *)
(*   StartAll : go run(); for each executable process p:                   *)
(*                 [subscribe the watcher of p]      (SubscribeFirst)       *)
(*                 p.StartAll ; wg.Add(1) ; go watcher(p)                  *)
(*   watcher  : [subscribe] (~SubscribeFirst) ; loop until the cease trace *)
(*              of p is received ; wg.Done                                 *)
(*   WaitUntilComplete : go { wg.Wait ; close(done) [once] } ;             *)
(*              select { ctx.Done -> false | done -> true }                *)
(*   run      : select { throw message | done -> send cease-set trace,     *)
(*              return | ctx.Done }                                        *)
(*                                                                         *)
(* SubscribeFirst = FALSE and CloseOnce = FALSE is the pinned code: TLC    *)
(* finds (a) a process that ceases before its watcher subscribes is never  *)
(* seen, so no wait ever returns true, and (b) a second wait closes the    *)
(* closed channel (panic).  With both TRUE (the repaired code) the         *)
(* properties hold.                                                        *)
(***************************************************************************)
EXTENDS Integers, FiniteSets, TLC

CONSTANTS Procs,          \* executable processes
          Waiters,        \* WaitUntilComplete calls
          SubscribeFirst, CloseOnce

VARIABLES pst,      \* pst[p]: "new" | "running" | "ceased"
          wsub,     \* wsub[p]: the watcher of p is subscribed
          wseen,    \* wseen[p]: the watcher of p has received the cease trace
          wpc,      \* wpc[p]: "none" | "spawned" | "watching" | "done"
          spc,      \* StartAll: index of the next process to start (processes in a fixed order) / "returned"
          wg,       \* wait-group counter
          done,     \* done channel closed (number of close calls)
          hpc,      \* hpc[w]: helper goroutine of wait call w: "none" | "waiting" | "closed"
          cpc,      \* cpc[w]: caller of wait w: "idle" | "blocked" | "true" | "false"
          rpc,      \* run loop: "select" | "sent" (cease-set trace sent, returned)
          ceaseset, \* number of cease-process-set traces
          panic
vars == <<pst, wsub, wseen, wpc, spc, wg, done, hpc, cpc, rpc, ceaseset, panic>>

Order == CHOOSE f \in [1..Cardinality(Procs) -> Procs] : \A i, j \in DOMAIN f : i # j => f[i] # f[j]
N == Cardinality(Procs)

Init == /\ pst = [p \in Procs |-> "new"] /\ wsub = [p \in Procs |-> FALSE] /\ wseen = [p \in Procs |-> FALSE]
        /\ wpc = [p \in Procs |-> "none"] /\ spc = 1 /\ wg = 0 /\ done = 0
        /\ hpc = [w \in Waiters |-> "none"] /\ cpc = [w \in Waiters |-> "idle"]
        /\ rpc = "select" /\ ceaseset = 0 /\ panic = FALSE

\* StartAll handles the next process: (subscribe), start, wg.Add, spawn watcher
StartNext ==
  /\ spc \in 1..N
  /\ LET p == Order[spc] IN
     /\ pst' = [pst EXCEPT ![p] = "running"]
     /\ wsub' = IF SubscribeFirst THEN [wsub EXCEPT ![p] = TRUE] ELSE wsub
     /\ wg' = wg + 1
     /\ wpc' = [wpc EXCEPT ![p] = "spawned"]
  /\ spc' = spc + 1
  /\ UNCHANGED <<wseen, done, hpc, cpc, rpc, ceaseset, panic>>

\* the process finishes: its cease trace reaches the watcher only if subscribed
Cease(p) ==
  /\ pst[p] = "running"
  /\ pst' = [pst EXCEPT ![p] = "ceased"]
  /\ wseen' = IF wsub[p] THEN [wseen EXCEPT ![p] = TRUE] ELSE wseen
  /\ UNCHANGED <<wsub, wpc, spc, wg, done, hpc, cpc, rpc, ceaseset, panic>>

WatcherSubscribe(p) ==
  /\ wpc[p] = "spawned"
  /\ wsub' = [wsub EXCEPT ![p] = TRUE]
  /\ wpc' = [wpc EXCEPT ![p] = "watching"]
  /\ UNCHANGED <<pst, wseen, spc, wg, done, hpc, cpc, rpc, ceaseset, panic>>

WatcherDone(p) ==
  /\ wpc[p] = "watching" /\ wseen[p]
  /\ wpc' = [wpc EXCEPT ![p] = "done"]
  /\ wg' = wg - 1
  /\ UNCHANGED <<pst, wsub, wseen, spc, done, hpc, cpc, rpc, ceaseset, panic>>

\* a caller enters WaitUntilComplete (after StartAll has returned): helper spawned
WaitCall(w) ==
  /\ cpc[w] = "idle" /\ spc = N + 1 /\ ~panic
  /\ cpc' = [cpc EXCEPT ![w] = "blocked"] /\ hpc' = [hpc EXCEPT ![w] = "waiting"]
  /\ UNCHANGED <<pst, wsub, wseen, wpc, spc, wg, done, rpc, ceaseset, panic>>

\* helper: wg.Wait() returned, close(done)
HelperClose(w) ==
  /\ hpc[w] = "waiting" /\ wg = 0
  /\ hpc' = [hpc EXCEPT ![w] = "closed"]
  /\ IF done > 0 /\ ~CloseOnce THEN panic' = TRUE /\ UNCHANGED done
     ELSE /\ done' = (IF done > 0 THEN done ELSE 1) /\ UNCHANGED panic
  /\ UNCHANGED <<pst, wsub, wseen, wpc, spc, wg, cpc, rpc, ceaseset>>

WaitTrue(w) ==
  /\ cpc[w] = "blocked" /\ done > 0
  /\ cpc' = [cpc EXCEPT ![w] = "true"]
  /\ UNCHANGED <<pst, wsub, wseen, wpc, spc, wg, done, hpc, rpc, ceaseset, panic>>

\* the caller's context expires
WaitFalse(w) ==
  /\ cpc[w] = "blocked"
  /\ cpc' = [cpc EXCEPT ![w] = "false"]
  /\ UNCHANGED <<pst, wsub, wseen, wpc, spc, wg, done, hpc, rpc, ceaseset, panic>>

RunDone ==
  /\ rpc = "select" /\ done > 0
  /\ rpc' = "sent" /\ ceaseset' = ceaseset + 1
  /\ UNCHANGED <<pst, wsub, wseen, wpc, spc, wg, done, hpc, cpc, panic>>

Next == StartNext \/ RunDone
        \/ \E p \in Procs : Cease(p) \/ WatcherSubscribe(p) \/ WatcherDone(p)
        \/ \E w \in Waiters : WaitCall(w) \/ HelperClose(w) \/ WaitTrue(w) \/ WaitFalse(w)
Fair == /\ WF_vars(StartNext) /\ WF_vars(RunDone)
        /\ \A p \in Procs : WF_vars(Cease(p)) /\ WF_vars(WatcherSubscribe(p)) /\ WF_vars(WatcherDone(p))
        /\ \A w \in Waiters : WF_vars(HelperClose(w)) /\ WF_vars(WaitTrue(w))
Spec == Init /\ [][Next]_vars /\ Fair

(* ------------------------------ properties ------------------------------ *)
NoPanic == ~panic
\* a wait returns true only when every started process has ceased
TrueOnlyWhenAllCeased == \A w \in Waiters : cpc[w] = "true" => \A p \in Procs : pst[p] = "ceased"
AtMostOneCeaseSet == ceaseset <= 1
\* however quickly the processes finish: once all have ceased, completion is signalled
\* to every call that is still waiting (liveness; needs the helper to run)
AllCeased == \A p \in Procs : pst[p] = "ceased"
\* liveness: once everything has been started and has ceased, every watcher
\* finishes (the wait group drains), so waits can be answered
WatchersFinish == (spc = N + 1 /\ AllCeased) ~> (wg = 0)
=============================================================================
