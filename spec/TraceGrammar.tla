---------------------------- MODULE TraceGrammar ----------------------------
(***************************************************************************)
(* C09 (engine part), C02 (cease last), C20 (ids in traces): the causality *)
(* grammar of an instance's trace stream, checked on the FULL recorded     *)
(* stream of engine runs (every record the tracer delivered, in order):    *)
(*  - a flow forked by a flow trace (every entry after the first) has not   *)
(*    emitted its new-flow trace before that flow trace;                   *)
(*  - a node is never left more often than it was visited;                 *)
(*  - a flow's termination is its last trace: afterwards it is never       *)
(*    announced, started or terminated again, nor is it the origin of a    *)
(*    flow trace;                                                          *)
(*  - flow ids and instance ids never repeat;                              *)
(*  - the cease-flow trace of the process comes exactly once and after     *)
(*    every other flow-emitted trace;                                      *)
(*  - a second subscriber saw exactly the same stream.                     *)
(***************************************************************************)
EXTENDS Integers, Sequences, FiniteSets, TLC, Json, SequencesExt

CONSTANTS TraceFile, OutFile
Log == ndJsonDeserialize(TraceFile)

VARIABLES l, ok, g
ASSUME TLCSet(1, {}) /\ TLCSet(2, {})

SeqRange(q) == {q[i] : i \in DOMAIN q}
Fresh == [born |-> {}, dead |-> {}, inst |-> {}, visits |-> <<>>, leaves |-> <<>>, ceased |-> FALSE]

Count(f, k) == IF k \in DOMAIN f THEN f[k] ELSE 0
Bump(f, k)  == [x \in DOMAIN f \cup {k} |-> IF x = k THEN Count(f, k) + 1 ELSE f[x]]

FlowEmitted(ev) == ev \in {"newflow", "visit", "leave", "flow", "completion", "termination"}

Step(s, e) ==
  IF s.ceased /\ FlowEmitted(e.ev) THEN {}          \* nothing of a flow after the cease trace
  ELSE
  CASE e.ev = "newflow" ->
         IF e.kind \in s.born \/ e.kind \in s.dead THEN {} ELSE {[s EXCEPT !.born = @ \cup {e.kind}]}
    [] e.ev = "instantiation" ->
         IF e.kind \in s.inst THEN {} ELSE {[s EXCEPT !.inst = @ \cup {e.kind}]}
    [] e.ev = "flow" ->
         \* entries after the first are always forked flows: not started yet;
         \* no entry may name a terminated flow
         \* the flow the trace comes from (its origin) is alive: its termination, if its own
         \* sequence flow is not taken, comes AFTER the flow trace it sends
         IF /\ \A i \in DOMAIN e.fids : e.fids[i] \notin s.dead
            /\ \A i \in DOMAIN e.fids : i > 1 => e.fids[i] \notin s.born
            /\ (e.kind # "" => (e.kind \in s.born /\ e.kind \notin s.dead))
         THEN {s} ELSE {}
    [] e.ev = "visit" -> {[s EXCEPT !.visits = Bump(@, e.node)]}
    [] e.ev = "leave" ->
         IF Count(s.leaves, e.node) < Count(s.visits, e.node) THEN {[s EXCEPT !.leaves = Bump(@, e.node)]} ELSE {}
    [] e.ev = "termination" ->
         IF e.kind \in s.dead \/ e.kind \notin s.born THEN {} ELSE {[s EXCEPT !.dead = @ \cup {e.kind}]}
    [] e.ev = "cease" ->
         IF s.ceased THEN {} ELSE {[s EXCEPT !.ceased = TRUE]}
    [] e.ev = "sub2" -> IF e.ok THEN {s} ELSE {}
    [] OTHER -> {s}

Init == l = 1 /\ ok = FALSE /\ g = Fresh

Next ==
  /\ l <= Len(Log)
  /\ l' = l + 1
  /\ LET e == Log[l] IN
     IF e.ev = "init" THEN g' = Fresh /\ ok' = TRUE
     ELSE IF ~ok THEN UNCHANGED <<g, ok>>
     ELSE LET S == Step(g, e) IN
          IF S = {} THEN /\ ok' = FALSE /\ g' = g
                         /\ TLCSet(2, TLCGet(2) \cup {<<e.run, l, e.ev, e.node>>})
          ELSE /\ g' \in S /\ ok' = TRUE
               /\ (e.ev = "fin" => TLCSet(1, TLCGet(1) \cup {e.run}))

TraceSpec == Init /\ [][Next]_<<l, ok, g>>
Report == JsonSerialize(OutFile, [accepted |-> SetToSeq(TLCGet(1)), failures |-> SetToSeq(TLCGet(2)), len |-> Len(Log)])
=============================================================================
