-------------------------- MODULE ProcessSetTrace --------------------------
(***************************************************************************)
(* C18, direction B: the set-level records of recorded process-set runs    *)
(* (each member process's own records are validated separately against     *)
(* TokenGameTrace: "each behaves as it would alone").                      *)
(*   setinit(n)      n executable processes                                *)
(*   started(ok)     ProcessSet.StartAll returned                          *)
(*   instantiation   a process instance was created                        *)
(*   throw(kind)     a throw event with a message flow fired; kind = what   *)
(*                   the flow targets: "start" | "catch" | "" (none)       *)
(*   pcease          a member process emitted its cease-flow trace         *)
(*   setwait(ok, ms) a WaitUntilComplete call returned                     *)
(*   ceaseset        the cease-process-set trace                           *)
(*   setfin          end of the run (after a grace period)                 *)
(***************************************************************************)
EXTENDS Integers, Sequences, FiniteSets, TLC, Json, SequencesExt

CONSTANTS TraceFile, OutFile
Log == ndJsonDeserialize(TraceFile)
VARIABLES l, ok, st
ASSUME TLCSet(1, {}) /\ TLCSet(2, {})

Fresh == [nexec |-> 0, started |-> FALSE, inst |-> 0, tstart |-> 0, ceased |-> 0, ceaseset |-> 0, waited |-> FALSE, truewait |-> FALSE,
          open |-> 0]     \* task requests seen and not yet answered
\* processes that have been started so far: the executable ones plus one per throw into a start event
Running(s) == s.nexec + s.tstart

Step(s, e) ==
  CASE e.ev = "setinit" -> {[s EXCEPT !.nexec = e.n]}
    [] e.ev = "started" -> IF e.ok THEN {[s EXCEPT !.started = TRUE]} ELSE {}
    [] e.ev = "instantiation" -> {[s EXCEPT !.inst = @ + 1]}
    [] e.ev = "throw" -> IF e.kind = "start" THEN {[s EXCEPT !.tstart = @ + 1]} ELSE {s}
    [] e.ev = "pcease" -> IF s.ceased < Running(s) THEN {[s EXCEPT !.ceased = @ + 1]} ELSE {}
    \* a task request after a wait has reported completion: that report came too early (a request is
    \* answered by the observer that logs it, so every request of a set that HAS completed was
    \* logged before the answer that let it complete)
    [] e.ev = "preq" -> IF s.truewait THEN {} ELSE {[s EXCEPT !.open = @ + 1]}
    [] e.ev = "pans" -> {[s EXCEPT !.open = @ - 1]}
    [] e.ev = "setwait" ->
         \* never true while a task request is unanswered (records of the engine may be
         \* logged late, so "all ceased" is checked at the end: setfin); a call that was
         \* given at least a second after everything had completed must be true
         IF e.ok THEN (IF s.started /\ s.open = 0 THEN {[s EXCEPT !.waited = TRUE, !.truewait = TRUE]} ELSE {})
         ELSE (IF s.ceased = Running(s) /\ s.started /\ e.n >= 1000 THEN {} ELSE {[s EXCEPT !.waited = TRUE]})
    [] e.ev = "ceaseset" -> IF s.ceaseset = 0 /\ s.open = 0 THEN {[s EXCEPT !.ceaseset = 1]} ELSE {}
    [] e.ev = "setfin" ->
         \* one instance per started process (exactly once per throw), and exactly one
         \* cease-process-set trace once a wait has reported completion
         IF /\ s.inst = Running(s)
            /\ (s.truewait => (s.ceaseset = 1 /\ s.ceased = Running(s)))
            /\ (s.ceaseset = 1 => s.ceased = Running(s))
         THEN {s} ELSE {}
    [] e.ev = "error" -> {}
    [] OTHER -> {}

Init == l = 1 /\ ok = FALSE /\ st = Fresh
Next ==
  /\ l <= Len(Log) /\ l' = l + 1
  /\ LET e == Log[l] IN
     IF e.ev = "setinit" THEN st' = [Fresh EXCEPT !.nexec = e.n] /\ ok' = TRUE
     ELSE IF ~ok THEN UNCHANGED <<st, ok>>
     ELSE LET S == Step(st, e) IN
          IF S = {} THEN /\ ok' = FALSE /\ st' = st /\ TLCSet(2, TLCGet(2) \cup {<<e.run, l, e.ev, e.node>>})
          ELSE /\ st' \in S /\ ok' = TRUE /\ (e.ev = "setfin" => TLCSet(1, TLCGet(1) \cup {e.run}))
TraceSpec == Init /\ [][Next]_<<l, ok, st>>
Report == JsonSerialize(OutFile, [accepted |-> SetToSeq(TLCGet(1)), failures |-> SetToSeq(TLCGet(2)), len |-> Len(Log)])
=============================================================================
