----------------------------- MODULE TokenGame -----------------------------
(***************************************************************************)
(* Level P: the BPMN token game the engine has to implement, over an       *)
(* arbitrary program that is data (BpmnProgram).  Written in a functional  *)
(* style -- every move is an operator from a state record to a set of      *)
(* labelled successor states -- so that the same operators serve           *)
(*   (1) the fine-grained next-state relation that TLC model-checks,       *)
(*   (2) the macro step (environment action ; closure) that generates the  *)
(*       environment schedules replayed on the real engine, and            *)
(*   (3) the trace specification that validates recorded real executions.  *)
(*                                                                         *)
(* A token is a record [at, st, occ, via, tag, inst]:                      *)
(*   st = "flow"  : on sequence flow `at`                                  *)
(*   st = "in"    : inside node `at`, about to leave it (start event fired,*)
(*                  task answered, event caught, sub-process finished)     *)
(*   st = "req"   : at task `at`, request number occ issued, unanswered    *)
(*   st = "join"  : parked at the parallel / inclusive gateway `at`,       *)
(*                  having arrived by flow `via`                           *)
(*   st = "sub"   : the parent token parked in sub-process `at` while      *)
(*                  activation occ of that scope runs                      *)
(*   st = "listen": waiting at catch event `at` (occ = matching state id)  *)
(*   st = "err"   : left at gateway `at` after a no-flow error             *)
(*   st = "errp"  : at task `at`, answered with an error that the engine   *)
(*                  has not reported yet (mode, mn, pl hold the answer)    *)
(*   st = "rereq" : at task `at`, about to be requested again (retry)      *)
(* tag  = stack of inclusive-fork activations <<gateway, k>> the token     *)
(*        descends from; inst = stack of sub-process activation numbers.   *)
(***************************************************************************)
EXTENDS BpmnProgram, Bags, FiniteSetsExt

Tok(at, st, occ, via, tag, inst) ==
  [at |-> at, st |-> st, occ |-> occ, via |-> via, tag |-> tag, inst |-> inst,
   att |-> 0,        \* retries used by this token at its current task
   mode |-> "",      \* pending error answer: err | skip | exit | retry
   mn |-> 0,         \* retry count given with the pending error answer
   pl |-> <<>>,      \* payload of the pending error answer
   cands |-> {}]     \* payloads of concurrently issued first answers

BagOf(S)      == SetToBag(S)
Toks(s)       == BagToSet(s.tok)
AddToks(B, S) == B (+) SetToBag(S)
DelTok(B, t)  == B (-) SetToBag({t})

GatewayIds(i) == NodesOfKind(i, "xor") \cup NodesOfKind(i, "or")

InitState(i) ==
  [p       |-> i,
   tok     |-> EmptyBag,
   vars    |-> Vars0(i),
   reqn    |-> [id \in NodesOfKind(i, "task") |-> 0],
   ended   |-> [id \in {e \in NodesOfKind(i, "end") : Node(i, e).scope = ""} |-> 0],
   errs    |-> [id \in GatewayIds(i) |-> 0],
   nact    |-> 0,
   nkill   |-> 0,         \* tokens stopped by an exit answer / exhausted retries
   started |-> FALSE,
   ceased  |-> FALSE]

\* the environment starts the instance: every top-level start event fires
Started(s) ==
  [s EXCEPT !.started = TRUE,
            !.tok = AddToks(@, {Tok(id, "in", 0, "", <<>>, <<>>) : id \in StartsOf(s.p, "")})]

Lab(ev, node, occ) == [ev |-> ev, node |-> node, occ |-> occ]
Tau == Lab("tau", "", 0)
Mv(lab, s) == [lab |-> lab, s |-> s]

-----------------------------------------------------------------------------
(* Leaving a node: one token per outgoing flow whose condition is true or    *)
(* absent, evaluated on the store as it is now (after the answer's results   *)
(* were written); no true flow: the token is consumed.                       *)
LeaveMoves(s) ==
  { LET n   == Node(s.p, t.at)
        fl  == TrueOut(s.p, n, s.vars)
        new == {Tok(fl[k], "flow", 0, "", t.tag, t.inst) : k \in DOMAIN fl}
    IN  Mv(Tau, [s EXCEPT !.tok = AddToks(DelTok(@, t), new)])
    : t \in {u \in Toks(s) : u.st = "in"} }

\* which flow an exclusive gateway selects: first true non-default flow in
\* list order, else the default, else none ("")
XorChoice(i, n, vars) ==
  LET c == TrueNonDefault(i, n, vars)
  IN  IF c # <<>> THEN c[1] ELSE n.dflt

\* flows an inclusive gateway activates: all true non-default flows, else the
\* default alone, else none
OrChoice(i, n, vars) ==
  LET c == TrueNonDefault(i, n, vars)
  IN  IF c # <<>> THEN c ELSE IF n.dflt # "" THEN <<n.dflt>> ELSE <<>>

(* A token on a flow arrives at the flow's target node.                      *)
ArriveMove(s, t) ==
  LET i == s.p
      n == Dst(i, t.at)
      rest == DelTok(s.tok, t)
  IN
  CASE n.kind = "task" ->
         LET k == s.reqn[n.id] + 1 IN
         Mv(Lab("req", n.id, k),
            [s EXCEPT !.reqn[n.id] = k,
                      !.tok = AddToks(rest, {Tok(n.id, "req", k, "", t.tag, t.inst)})])
    [] n.kind = "end" ->
         \* the end events of an embedded sub-process are not observable from
         \* outside (inlining erases them): only top-level end events are
         IF n.scope = ""
         THEN Mv(Lab("end", n.id, 0), [s EXCEPT !.ended[n.id] = @ + 1, !.tok = rest])
         ELSE Mv(Tau, [s EXCEPT !.tok = rest])
    [] n.kind = "xor" ->
         LET f == XorChoice(i, n, s.vars) IN
         IF f # ""
         THEN Mv(Tau, [s EXCEPT !.tok = AddToks(rest, {Tok(f, "flow", 0, "", t.tag, t.inst)})])
         ELSE Mv(Lab("error", n.id, 0),
                 [s EXCEPT !.errs[n.id] = @ + 1,
                           !.tok = AddToks(rest, {Tok(n.id, "err", 0, "", t.tag, t.inst)})])
    [] n.kind \in {"and", "or"} ->
         Mv(Tau, [s EXCEPT !.tok = AddToks(rest, {Tok(n.id, "join", 0, t.at, t.tag, t.inst)})])
    [] n.kind = "sub" ->
         LET k == s.nact + 1 IN
         Mv(Tau, [s EXCEPT !.nact = k,
                           !.tok = AddToks(rest,
                               {Tok(n.id, "sub", k, "", t.tag, t.inst)} \cup
                               {Tok(st, "in", 0, "", <<>>, Append(t.inst, k)) : st \in StartsOf(i, n.id)})])
    [] OTHER -> Mv(Lab("unsupported", n.id, 0), s)

ArriveMoves(s) == {ArriveMove(s, t) : t \in {u \in Toks(s) : u.st = "flow"}}

(* Parallel gateway: enabled when a token waits on every incoming flow;      *)
(* consumes one per incoming flow, produces one per outgoing flow.           *)
AndMoves(s) ==
  LET i == s.p
      W(g) == {t \in Toks(s) : t.at = g /\ t.st = "join"}
      Ready(g) == \A k \in DOMAIN Node(i, g).in : \E t \in W(g) : t.via = Node(i, g).in[k]
  IN { LET n    == Node(i, g)
           pick == [k \in DOMAIN n.in |-> CHOOSE t \in W(g) : t.via = n.in[k]]
           rem  == s.tok (-) SetToBag({pick[k] : k \in DOMAIN n.in})
           new  == {Tok(n.out[k], "flow", 0, "", pick[1].tag, pick[1].inst) : k \in DOMAIN n.out}
       IN  Mv(Tau, [s EXCEPT !.tok = AddToks(rem, new)])
       : g \in {g \in NodesOfKind(i, "and") : Ready(g)} }

(* Inclusive gateway.  Tokens waiting at the gateway are grouped by the fork *)
(* activation on top of their tag stack; a group passes as ONE token         *)
(* (exactly once per activation).  The property gives a window:              *)
(*   early bound - every token of the activation that can still REACH the    *)
(*                 gateway has arrived (never earlier);                      *)
(*   late bound  - every token of the activation has arrived or ended        *)
(*                 elsewhere (no later).                                     *)
(* Between the bounds the gateway MAY pass (OrMay), from the late bound on   *)
(* it MUST (OrMust, part of the eager closure).                              *)
NoTag == <<"", 0>>
TopTag(t) == IF t.tag = <<>> THEN NoTag ELSE t.tag[Len(t.tag)]

SuccNodes(i, n) == {Flow(i, f).dst : f \in SeqRange(Node(i, n).out)}
                     \cup {b \in NodeIdsOf(i) : Node(i, b).kind = "boundary" /\ Node(i, b).attached = n}
RECURSIVE ReachFrom(_, _, _)
ReachFrom(i, frontier, seen) ==
  IF frontier = {} THEN seen
  ELSE LET nxt == (UNION {SuccNodes(i, n) : n \in frontier}) \ seen
       IN  ReachFrom(i, nxt, seen \cup nxt)
\* nodes reachable from n in one or more steps (constant, evaluated once)
ReachMap == [i \in 1..NProg |-> [n \in NodeIdsOf(i) |-> ReachFrom(i, {n}, {})]]

\* the node of scope sc that (transitively) contains node n, or "" if none
RECURSIVE LiftTo(_, _, _)
LiftTo(i, n, sc) ==
  IF Node(i, n).scope = sc THEN n
  ELSE IF Node(i, n).scope = "" THEN ""
  ELSE LiftTo(i, Node(i, n).scope, sc)

\* can token u still arrive at gateway g ?
CanReach(i, u, g) ==
  LET onFlow == u.st = "flow"
      pos    == IF onFlow THEN Flow(i, u.at).dst ELSE u.at
      lp     == LiftTo(i, pos, Node(i, g).scope)
  IN  /\ lp # ""
      /\ \/ g \in ReachMap[i][lp]
         \/ (onFlow /\ lp = g /\ pos = g)

OrW(s, g) == {t \in Toks(s) : t.at = g /\ t.st = "join"}
OrMembers(s, g, k, inst) == {t \in OrW(s, g) : TopTag(t) = k /\ t.inst = inst}
OrLate(s, g, k, inst) ==
  \/ k = NoTag
  \/ \A u \in Toks(s) \ OrMembers(s, g, k, inst) : k \notin SeqRange(u.tag)
OrEarly(s, g, k, inst) ==
  \/ k = NoTag
  \/ \A u \in Toks(s) \ OrMembers(s, g, k, inst) :
        k \in SeqRange(u.tag) => ~CanReach(s.p, u, g)
OrCands(s) == UNION { {<<g, TopTag(t), t.inst>> : t \in OrW(s, g)} : g \in NodesOfKind(s.p, "or") }

OrFire(s, c) ==
  LET i    == s.p
      g    == c[1]
      k    == c[2]
      inst == c[3]
      n    == Node(i, g)
      mem  == OrMembers(s, g, k, inst)
      any  == CHOOSE t \in mem : TRUE
      \* an untagged token passes on its own; a tagged group passes as one
      rem  == IF k = NoTag THEN DelTok(s.tok, any)
              ELSE [t \in DOMAIN s.tok \ mem |-> s.tok[t]]
      base == IF k # NoTag /\ Len(n.in) > 1 THEN SubSeq(any.tag, 1, Len(any.tag) - 1) ELSE any.tag
      fl   == OrChoice(i, n, s.vars)
      act  == s.nact + 1
      ntag == IF Len(n.out) > 1 THEN Append(base, <<g, act>>) ELSE base
      new  == {Tok(fl[j], "flow", 0, "", ntag, inst) : j \in DOMAIN fl}
  IN  IF fl # <<>>
      THEN Mv(Tau, [s EXCEPT !.nact = act, !.tok = AddToks(rem, new)])
      ELSE Mv(Lab("error", g, 0),
              [s EXCEPT !.errs[g] = @ + 1,
                        !.tok = AddToks(rem, {Tok(g, "err", 0, "", base, inst)})])

OrMoves(s)    == {OrFire(s, c) : c \in {c \in OrCands(s) : OrLate(s, c[1], c[2], c[3])}}
OrMayMoves(s) == {OrFire(s, c) : c \in {c \in OrCands(s) : /\ ~OrLate(s, c[1], c[2], c[3])
                                                            /\ OrEarly(s, c[1], c[2], c[3])}}

(* Sub-process: the parked parent token continues once no token of the       *)
(* activation remains.                                                       *)
SubExitMoves(s) ==
  { Mv(Tau, [s EXCEPT !.tok = AddToks(DelTok(@, t), {[t EXCEPT !.st = "in", !.occ = 0]})])
    : t \in {u \in Toks(s) : /\ u.st = "sub"
                             /\ \A v \in Toks(s) : u.occ \notin SeqRange(v.inst)} }

(* Environment: answering a task request.  Only declared result names are    *)
(* stored.                                                                   *)
ReqToks(s) == {t \in Toks(s) : t.st = "req"}

Store(i, n, vars, payload) ==
  LET W == SeqRange(n.writes) \cap DOMAIN payload
  IN  [v \in DOMAIN vars \cup W |-> IF v \in W THEN payload[v] ELSE vars[v]]

AnswerOK(s, t, payload) ==
  [s EXCEPT !.vars = Store(s.p, Node(s.p, t.at), @, payload),
            !.tok  = AddToks(DelTok(@, t), {[t EXCEPT !.st = "in", !.occ = 0, !.att = 0, !.cands = {}]})]

(* An answer carrying an error: the engine first reports it (error trace),   *)
(* then continues (no handler, or skip: the results of that answer are       *)
(* stored), stops the token (exit), or requests the same task again at most  *)
(* the given number of additional times (retry).                             *)
AnswerErr(s, t, payload, kind, n) ==
  [s EXCEPT !.tok = AddToks(DelTok(@, t),
       {[t EXCEPT !.st = "errp", !.mode = kind, !.mn = n, !.pl = payload, !.cands = {}]})]

AnswerAny(s, t, payload, kind, n) ==
  IF kind = "" THEN AnswerOK(s, t, payload) ELSE AnswerErr(s, t, payload, kind, n)

TaskErrMoves(s) ==
  { LET rest  == DelTok(s.tok, t)
        clean == [t EXCEPT !.mode = "", !.mn = 0, !.pl = <<>>]
    IN  CASE t.mode \in {"err", "skip"} ->
               Mv(Lab("taskerr", t.at, 0),
                  [s EXCEPT !.vars = Store(s.p, Node(s.p, t.at), @, t.pl),
                            !.tok  = AddToks(rest, {[clean EXCEPT !.st = "in", !.occ = 0, !.att = 0]})])
          [] t.mode = "retry" /\ t.att < t.mn ->
               Mv(Lab("taskerr", t.at, 0),
                  [s EXCEPT !.tok = AddToks(rest, {[clean EXCEPT !.st = "rereq", !.att = t.att + 1]})])
          [] OTHER ->   \* exit, or retries exhausted: the token stops here
               Mv(Lab("taskerr", t.at, 0), [s EXCEPT !.tok = rest, !.nkill = @ + 1])
    : t \in {u \in Toks(s) : u.st = "errp"} }

RereqMoves(s) ==
  { LET k == s.reqn[t.at] + 1 IN
    Mv(Lab("req", t.at, k),
       [s EXCEPT !.reqn[t.at] = k,
                 !.tok = AddToks(DelTok(@, t), {[t EXCEPT !.st = "req", !.occ = k]})])
    : t \in {u \in Toks(s) : u.st = "rereq"} }

Payloads(i, n) ==
  LET W == SeqRange(n.writes)
      D == UNION {SeqRange(DomOf(i)[w]) : w \in W}
  IN  {f \in [W -> D] : \A w \in W : f[w] \in SeqRange(DomOf(i)[w])}


(* Completion: all start events fired and no token remains.                  *)
Live(s)     == {t \in Toks(s) : t.st \notin {"err", "dead"}}
Complete(s) == s.started /\ Toks(s) = {}
CeaseMoves(s) ==
  IF Complete(s) /\ ~s.ceased THEN {Mv(Lab("cease", "", 0), [s EXCEPT !.ceased = TRUE])} ELSE {}

Moves(s)    == LeaveMoves(s) \cup ArriveMoves(s) \cup AndMoves(s) \cup OrMoves(s)
                 \cup SubExitMoves(s) \cup CeaseMoves(s) \cup TaskErrMoves(s) \cup RereqMoves(s)
TauMoves(s) == {m \in Moves(s) : m.lab.ev = "tau"}
ObsMoves(s) == {m \in Moves(s) : m.lab.ev # "tau"}

RECURSIVE CloseTau(_)
CloseTau(s) == LET ms == TauMoves(s)
               IN  IF ms = {} THEN s ELSE CloseTau((CHOOSE m \in ms : TRUE).s)

MayMoves(s) == OrMayMoves(s)

RECURSIVE CloseAll(_)
CloseAll(s) == LET ms == Moves(s)
               IN  IF ms = {} THEN s ELSE CloseAll((CHOOSE m \in ms : TRUE).s)

\* closure used when the environment has nothing left to do: a move that is
\* merely allowed has to happen eventually if nothing else can
RECURSIVE CloseQuiet(_)
CloseQuiet(s) ==
  LET s1 == CloseAll(s) IN
  IF {t \in Toks(s1) : t.st = "req"} = {} /\ MayMoves(s1) # {}
  THEN CloseQuiet((CHOOSE m \in MayMoves(s1) : TRUE).s)
  ELSE s1

\* all states reachable by taking allowed-but-not-forced moves (each followed
\* by the eager tau closure), including the state itself
RECURSIVE ExpandFrom(_, _)
ExpandFrom(frontier, seen) ==
  IF frontier = {} THEN seen
  ELSE LET nxt == {CloseTau(m.s) : m \in UNION {{mm \in MayMoves(x) : mm.lab.ev = "tau"} : x \in frontier}} \ seen
       IN  ExpandFrom(nxt, seen \cup nxt)
Expand(s) == ExpandFrom({s}, {s})

-----------------------------------------------------------------------------
(* The specification proper (fine-grained): used for model checking the      *)
(* token game itself over a program family.                                  *)
VARIABLE s

TGInit == \E i \in 1..NProg : s = Started(InitState(i))

Internal == \E m \in Moves(s) : s' = m.s
Answer   == \E t \in ReqToks(s) : \E pl \in Payloads(s.p, Node(s.p, t.at)) : s' = AnswerOK(s, t, pl)

TGNext == Internal \/ Answer
TGSpec == TGInit /\ [][TGNext]_s /\ WF_s(TGNext)

(* Properties of the game itself *)
TypeOK == /\ s.p \in 1..NProg
          /\ \A t \in Toks(s) : t.st \in {"flow", "in", "req", "join", "sub", "listen", "err", "errp", "rereq"}

\* never two unanswered requests with the same number; counters match
RequestedOncePerToken ==
  \A t \in ReqToks(s) : s.tok[t] = 1 /\ t.occ <= s.reqn[t.at]

\* a state without any enabled move and without pending request is either
\* complete or holds only error/dead tokens: block-structured programs never
\* deadlock
Stuck(st) == Moves(st) = {} /\ ReqToks(st) = {}
NoDeadToken == (Stuck(s) /\ Live(s) = Toks(s) /\ s.nkill = 0) => (Live(s) = {})
CeasedOnlyWhenEmpty == s.ceased => Toks(s) = {}
EventuallyQuiet == <>[](Moves(s) = {})
=============================================================================
