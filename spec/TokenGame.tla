----------------------------- MODULE TokenGame -----------------------------
(***************************************************************************)
(* Level P: the BPMN token game the engine has to implement, over an       *)
(* arbitrary program that is data (BpmnProgram).  Written in a functional  *)
(* style -- every move is an operator from a state record to a set of      *)
(* labelled successor states -- so that the same operators serve           *)
(*   (1) the fine-grained next-state relation that TLC model-checks,       *)
(*   (2) the macro step (environment action ; closure) that generates the  *)
(*       environment schedules replayed on the real engine, and            *)
(*   (3) the trace specification that validates recorded real executions.  *)
(*                                                                         *)
(* A token is a record [at, st, occ, via, tag, inst]:                      *)
(*   st = "flow"  : on sequence flow `at`                                  *)
(*   st = "in"    : inside node `at`, about to leave it (start event fired,*)
(*                  task answered, event caught, sub-process finished)     *)
(*   st = "req"   : at task `at`, request number occ issued, unanswered    *)
(*   st = "join"  : parked at the parallel / inclusive gateway `at`,       *)
(*                  having arrived by flow `via`                           *)
(*   st = "sub"   : the parent token parked in sub-process `at` while      *)
(*                  activation occ of that scope runs                      *)
(*   st = "arriving": at catch event `at`, visit announced, not yet listening*)
(*   st = "listen": listening at catch event `at`                          *)
(*   st = "cand"  : alternative of an event-based gateway whose event was  *)
(*                  caught, waiting for the gateway's determination        *)
(*   st = "err"   : left at gateway `at` after a no-flow error             *)
(*   st = "errp"  : at task `at`, answered with an error that the engine   *)
(*                  has not reported yet (mode, mn, pl hold the answer)    *)
(*   st = "rereq" : at task `at`, about to be requested again (retry)      *)
(* tag  = stack of inclusive-fork activations <<gateway, k>> the token     *)
(*        descends from; inst = stack of sub-process activation numbers.   *)
(***************************************************************************)
EXTENDS BpmnProgram, Bags, FiniteSetsExt

Tok(at, st, occ, via, tag, inst) ==
  [at |-> at, st |-> st, occ |-> occ, via |-> via, tag |-> tag, inst |-> inst,
   att |-> 0,        \* retries used by this token at its current task
   mode |-> "",      \* pending error answer: err | skip | exit | retry
   mn |-> 0,         \* retry count given with the pending error answer
   pl |-> <<>>,      \* payload of the pending error answer
   cands |-> {},     \* payloads of concurrently issued first answers
   race |-> 0]       \* event-based gateway activation the token competes in (0: none)

BagOf(S)      == SetToBag(S)
Toks(s)       == BagToSet(s.tok)
AddToks(B, S) == B (+) SetToBag(S)
DelTok(B, t)  == B (-) SetToBag({t})

GatewayIds(i) == NodesOfKind(i, "xor") \cup NodesOfKind(i, "or")
CatchIds(i)   == NodesOfKind(i, "catch") \cup NodesOfKind(i, "boundary")

InitState(i) ==
  [p       |-> i,
   tok     |-> EmptyBag,
   vars    |-> Vars0(i),
   reqn    |-> [id \in NodesOfKind(i, "task") |-> 0],
   ended   |-> [id \in {e \in NodesOfKind(i, "end") : Node(i, e).scope = ""} |-> 0],
   errs    |-> [id \in GatewayIds(i) |-> 0],
   nact    |-> 0,
   \* events: per catch / boundary node the deliveries it has not processed
   \* yet, and its multiple-event matching state (chains of matched definitions)
   inbox   |-> [id \in CatchIds(i) |-> <<>>],
   sat     |-> [id \in CatchIds(i) |-> <<>>],
   ndel    |-> 0,
   lstn    |-> [id \in CatchIds(i) |-> 0],   \* "listening" announcements so far
   armn    |-> [id \in CatchIds(i) |-> 0],   \* tokens that have registered at the catch event so far
   \* catch events whose listening token was withdrawn by an event-based gateway: the node
   \* itself still counts as armed (nothing tells it), so the next token to arrive is not
   \* announced; the node is disarmed by the next event that satisfies it
   stale   |-> {},
   \* <<catch node, stage>>: an alternative withdrawn while it was still on its way may yet
   \* announce its visit ("flow") and arm the node ("arriving") before it notices
   ghost   |-> {},
   intr    |-> {},        \* <<task, occ>> requests interrupted by a boundary event
   \* AS-IS mode (known deviations of the pinned implementation, findings F10, F10b, F10c, F11, F22,
   \* modelled as what the code does so that a run that shows one of them is still examined to
   \* its end): a boundary event is ONE listener flow started with the host's first activation;
   \* it fires at most once in the instance's life, never interrupts the host, and keeps the
   \* instance from completing until it has fired.  Never set by a check's own verdict pass.
   asis    |-> FALSE,
   bfired  |-> {},        \* boundary events whose listener flow has left (as-is mode)
   \* (as-is) host tasks whose harness is marked active: set by every request, cleared by every
   \* answer -- with two tokens waiting in one host the first answer switches the boundary
   \* events off for the other token as well
   hact    |-> {},
   \* deliveries already worked off on behalf of an answer that overtook the boundary event's
   \* own goroutine (trace validation only, see FlushBoundary): <<node, kind, ref>> in order
   flushed |-> <<>>,
   nkill   |-> 0,         \* tokens stopped by an exit answer / exhausted retries
   cancelled |-> FALSE,   \* the instance's context was cancelled
   parked  |-> FALSE,     \* ... while it had been silent for a while with requests unanswered
   started |-> FALSE,
   ceased  |-> FALSE]

\* the environment starts the instance: every top-level start event fires
Started(s) ==
  [s EXCEPT !.started = TRUE,
            !.tok = AddToks(@, {Tok(id, "in", 0, "", <<>>, <<>>) : id \in StartsOf(s.p, "")})]

LabA(ev, node, occ, arg) == [ev |-> ev, node |-> node, occ |-> occ, arg |-> arg]
Lab(ev, node, occ) == LabA(ev, node, occ, <<>>)
Tau == Lab("tau", "", 0)
Mv(lab, s) == [lab |-> lab, s |-> s]

-----------------------------------------------------------------------------
(* Leaving a node: one token per outgoing flow whose condition is true or    *)
(* absent, evaluated on the store as it is now (after the answer's results   *)
(* were written); no true flow: the token is consumed.                       *)
LeaveMoves(s) ==
  { LET n   == Node(s.p, t.at)
        fl  == TrueOut(s.p, n, s.vars)
        new == {Tok(fl[k], "flow", 0, "", t.tag, t.inst) : k \in DOMAIN fl}
    IN  Mv(Tau, [s EXCEPT !.tok = AddToks(DelTok(@, t), new)])
    : t \in {u \in Toks(s) : u.st = "in"} }

\* which flow an exclusive gateway selects: first true non-default flow in
\* list order, else the default, else none ("")
XorChoice(i, n, vars) ==
  LET c == TrueNonDefault(i, n, vars)
  IN  IF c # <<>> THEN c[1] ELSE n.dflt

\* flows an inclusive gateway activates: all true non-default flows, else the
\* default alone, else none
OrChoice(i, n, vars) ==
  LET c == TrueNonDefault(i, n, vars)
  IN  IF c # <<>> THEN c ELSE IF n.dflt # "" THEN <<n.dflt>> ELSE <<>>

(* A token on a flow arrives at the flow's target node.                      *)
ArriveMove(s, t) ==
  LET i == s.p
      n == Dst(i, t.at)
      rest == DelTok(s.tok, t)
  IN
  CASE n.kind = "task" ->
         LET k == s.reqn[n.id] + 1 IN
         Mv(Lab("req", n.id, k),
            [s EXCEPT !.reqn[n.id] = k, !.hact = @ \cup {n.id},
                      !.tok = AddToks(rest, {Tok(n.id, "req", k, "", t.tag, t.inst)})])
    [] n.kind = "end" ->
         \* the end events of an embedded sub-process are not observable from
         \* outside (inlining erases them): only top-level end events are
         IF n.scope = ""
         THEN Mv(Lab("end", n.id, 0), [s EXCEPT !.ended[n.id] = @ + 1, !.tok = rest])
         ELSE Mv(Tau, [s EXCEPT !.tok = rest])
    [] n.kind = "xor" ->
         LET f == XorChoice(i, n, s.vars) IN
         IF f # ""
         THEN Mv(Tau, [s EXCEPT !.tok = AddToks(rest, {Tok(f, "flow", 0, "", t.tag, t.inst)})])
         ELSE Mv(Lab("error", n.id, 0),
                 [s EXCEPT !.errs[n.id] = @ + 1,
                           !.tok = AddToks(rest, {Tok(n.id, "err", 0, "", t.tag, t.inst)})])
    [] n.kind \in {"and", "or"} ->
         Mv(Tau, [s EXCEPT !.tok = AddToks(rest, {Tok(n.id, "join", 0, t.at, t.tag, t.inst)})])
    [] n.kind = "sub" ->
         LET k == s.nact + 1 IN
         Mv(Tau, [s EXCEPT !.nact = k,
                           !.tok = AddToks(rest,
                               {Tok(n.id, "sub", k, "", t.tag, t.inst)} \cup
                               {Tok(st, "in", 0, "", <<>>, Append(t.inst, k)) : st \in StartsOf(i, n.id)})])
    [] n.kind = "catch" ->
         \* the engine announces the visit before the token starts listening;
         \* deliveries in flight at that moment race with the arrival
         Mv(Lab("visit", n.id, 0),
            [s EXCEPT !.tok = AddToks(rest, {[t EXCEPT !.at = n.id, !.st = "arriving"]}),
                      \* (a delivery that had returned before this token arrived is OLD for it: should the
                      \* node work it off only now it must not release the token -- "later deliveries of
                      \* the losing events have no effect")
                      !.inbox[n.id] = [k \in DOMAIN @ |-> IF @[k].done
                                                            THEN (IF {u \in Toks(s) : u.at = n.id /\ u.st = "listen"} = {} /\ ~@[k].racy THEN [@[k] EXCEPT !.old = TRUE] ELSE @[k])
                                                            ELSE [@[k] EXCEPT !.racy = TRUE]]])
    [] n.kind = "throw" ->
         \* an intermediate throw event lets the token pass (what it throws is
         \* a matter of the process set: ProcessSet / ProcessSetTrace)
         Mv(Tau, [s EXCEPT !.tok = AddToks(rest, {[t EXCEPT !.at = n.id, !.st = "in"]})])
    [] n.kind = "evgw" ->
         \* one competing token per alternative
         LET k == s.nact + 1 IN
         Mv(Tau, [s EXCEPT !.nact = k,
                           !.tok = AddToks(rest,
                              {[Tok(n.out[j], "flow", 0, n.id, t.tag, t.inst) EXCEPT !.race = k] : j \in DOMAIN n.out})])
    [] OTHER -> Mv(Lab("unsupported", n.id, 0), s)

ArriveMoves(s) == {ArriveMove(s, t) : t \in {u \in Toks(s) : u.st = "flow"}}

(* Parallel gateway: enabled when a token waits on every incoming flow;      *)
(* consumes one per incoming flow, produces one per outgoing flow.           *)
AndMoves(s) ==
  LET i == s.p
      W(g) == {t \in Toks(s) : t.at = g /\ t.st = "join"}
      Ready(g) == \A k \in DOMAIN Node(i, g).in : \E t \in W(g) : t.via = Node(i, g).in[k]
  IN { LET n    == Node(i, g)
           pick == [k \in DOMAIN n.in |-> CHOOSE t \in W(g) : t.via = n.in[k]]
           rem  == s.tok (-) SetToBag({pick[k] : k \in DOMAIN n.in})
           new  == {Tok(n.out[k], "flow", 0, "", pick[1].tag, pick[1].inst) : k \in DOMAIN n.out}
       IN  Mv(Tau, [s EXCEPT !.tok = AddToks(rem, new)])
       : g \in {g \in NodesOfKind(i, "and") : Ready(g)} }

(* Inclusive gateway.  Tokens waiting at the gateway are grouped by the fork *)
(* activation on top of their tag stack; a group passes as ONE token         *)
(* (exactly once per activation).  The property gives a window:              *)
(*   early bound - every token of the activation that can still REACH the    *)
(*                 gateway has arrived (never earlier);                      *)
(*   late bound  - every token of the activation has arrived or ended        *)
(*                 elsewhere (no later).                                     *)
(* Between the bounds the gateway MAY pass (OrMay), from the late bound on   *)
(* it MUST (OrMust, part of the eager closure).                              *)
NoTag == <<"", 0>>
TopTag(t) == IF t.tag = <<>> THEN NoTag ELSE t.tag[Len(t.tag)]

SuccNodes(i, n) == {Flow(i, f).dst : f \in SeqRange(Node(i, n).out)}
                     \cup {b \in NodeIdsOf(i) : Node(i, b).kind = "boundary" /\ Node(i, b).attached = n}
RECURSIVE ReachFrom(_, _, _)
ReachFrom(i, frontier, seen) ==
  IF frontier = {} THEN seen
  ELSE LET nxt == (UNION {SuccNodes(i, n) : n \in frontier}) \ seen
       IN  ReachFrom(i, nxt, seen \cup nxt)
\* nodes reachable from n in one or more steps (constant, evaluated once)
ReachMap == [i \in 1..NProg |-> [n \in NodeIdsOf(i) |-> ReachFrom(i, {n}, {})]]

\* the node of scope sc that (transitively) contains node n, or "" if none
RECURSIVE LiftTo(_, _, _)
LiftTo(i, n, sc) ==
  IF Node(i, n).scope = sc THEN n
  ELSE IF Node(i, n).scope = "" THEN ""
  ELSE LiftTo(i, Node(i, n).scope, sc)

\* can token u still arrive at gateway g ?
CanReach(i, u, g) ==
  LET onFlow == u.st = "flow"
      pos    == IF onFlow THEN Flow(i, u.at).dst ELSE u.at
      lp     == LiftTo(i, pos, Node(i, g).scope)
  IN  /\ lp # ""
      /\ \/ g \in ReachMap[i][lp]
         \/ (onFlow /\ lp = g /\ pos = g)

OrW(s, g) == {t \in Toks(s) : t.at = g /\ t.st = "join"}
OrMembers(s, g, k, inst) == {t \in OrW(s, g) : TopTag(t) = k /\ t.inst = inst}
OrLate(s, g, k, inst) ==
  \/ k = NoTag
  \/ \A u \in Toks(s) \ OrMembers(s, g, k, inst) : k \notin SeqRange(u.tag)
OrEarly(s, g, k, inst) ==
  \/ k = NoTag
  \/ \A u \in Toks(s) \ OrMembers(s, g, k, inst) :
        k \in SeqRange(u.tag) => ~CanReach(s.p, u, g)
OrCands(s) == UNION { {<<g, TopTag(t), t.inst>> : t \in OrW(s, g)} : g \in NodesOfKind(s.p, "or") }

OrFire(s, c) ==
  LET i    == s.p
      g    == c[1]
      k    == c[2]
      inst == c[3]
      n    == Node(i, g)
      mem  == OrMembers(s, g, k, inst)
      any  == CHOOSE t \in mem : TRUE
      \* an untagged token passes on its own; a tagged group passes as one
      rem  == IF k = NoTag THEN DelTok(s.tok, any)
              ELSE [t \in DOMAIN s.tok \ mem |-> s.tok[t]]
      base == IF k # NoTag /\ Len(n.in) > 1 THEN SubSeq(any.tag, 1, Len(any.tag) - 1) ELSE any.tag
      fl   == OrChoice(i, n, s.vars)
      act  == s.nact + 1
      ntag == IF Len(n.out) > 1 THEN Append(base, <<g, act>>) ELSE base
      new  == {Tok(fl[j], "flow", 0, "", ntag, inst) : j \in DOMAIN fl}
  IN  IF fl # <<>>
      THEN Mv(Tau, [s EXCEPT !.nact = act, !.tok = AddToks(rem, new)])
      ELSE Mv(Lab("error", g, 0),
              [s EXCEPT !.errs[g] = @ + 1,
                        !.tok = AddToks(rem, {Tok(g, "err", 0, "", base, inst)})])

OrMoves(s)    == {OrFire(s, c) : c \in {c \in OrCands(s) : OrLate(s, c[1], c[2], c[3])}}
OrMayMoves(s) == {OrFire(s, c) : c \in {c \in OrCands(s) : /\ ~OrLate(s, c[1], c[2], c[3])
                                                            /\ OrEarly(s, c[1], c[2], c[3])}}

(* Sub-process: the parked parent token continues once no token of the       *)
(* activation remains.                                                       *)
SubExitMoves(s) ==
  { Mv(Tau, [s EXCEPT !.tok = AddToks(DelTok(@, t), {[t EXCEPT !.st = "in", !.occ = 0]})])
    : t \in {u \in Toks(s) : /\ u.st = "sub"
                             /\ \A v \in Toks(s) : u.occ \notin SeqRange(v.inst)} }

(* ------------------------------ events ---------------------------------- *)
(* An event handed to the instance is offered to every catch event (and, via *)
(* the host activity, to every boundary event).  Each node works off its     *)
(* deliveries in order; a delivery is OBSERVED if something is listening at   *)
(* the node when it is worked off, otherwise it is dropped without effect.    *)
(* Entry: [k, ref, id, done, racy, after]                                     *)
(*   done  - the ConsumeEvent call has returned                               *)
(*   racy  - the delivery overlapped a token's arrival at the node: the       *)
(*           engine may legitimately see it either way                        *)
(*   after - ids of deliveries that were complete when this one was issued    *)
(*           (must be worked off first; concurrent deliveries are unordered)  *)
Listeners(s, c) ==
  IF Node(s.p, c).kind = "boundary"
  THEN IF s.asis /\ (c \in s.bfired \/ (Node(s.p, Node(s.p, c).attached).kind = "task" /\ Node(s.p, c).attached \notin s.hact)) THEN {}
       ELSE {t \in Toks(s) : t.at = Node(s.p, c).attached /\ t.st \in {"req", "sub"}}
  ELSE {t \in Toks(s) : t.at = c /\ t.st = "listen"}
Arriving(s, c) == {t \in Toks(s) : t.at = c /\ t.st = "arriving"}

\* index of the first event definition of node n the event matches (0: none)
DefIndex(n, x) ==
  LET M == {i \in DOMAIN n.evs : n.evs[i].k = x.k /\ n.evs[i].ref = x.ref}
  IN  IF M = {} THEN 0 ELSE Min(M)

\* a catch event is ARMED while a token listens at it, and also after its listening token was
\* withdrawn by an event-based gateway (nothing tells the node): an armed node works off the
\* events handed to it, observably, whether or not a token is there
Armed(s, c) == Listeners(s, c) # {} \/ c \in s.stale

Deliver(s, k, ref) ==
  LET id == s.ndel + 1 IN
  [s EXCEPT !.ndel = id,
            !.inbox = [c \in DOMAIN @ |->
               \* a boundary event is offered the event only while its host waits
               IF Node(s.p, c).kind = "boundary" /\ Listeners(s, c) = {} THEN @[c]
               ELSE Append(@[c], [k |-> k, ref |-> ref, id |-> id, done |-> FALSE, old |-> FALSE,
                                  \* (a boundary event that has not announced it listens yet
                                  \* is still being armed: the delivery races with that)
                                  racy |-> Arriving(s, c) # {} \/ (Node(s.p, c).kind = "boundary" /\ s.lstn[c] = 0),
                                  after |-> {@[c][j].id : j \in {j \in DOMAIN @[c] : @[c][j].done}}])]]

\* a delivery whose position relative to token arrivals is not known (the
\* environment did not wait for the instance to settle): it may be seen either way
DeliverRacy(s, k, ref) ==
  LET s1 == Deliver(s, k, ref) IN
  [s1 EXCEPT !.inbox = [c \in DOMAIN @ |->
      [j \in DOMAIN @[c] |-> IF @[c][j].id = s1.ndel THEN [@[c][j] EXCEPT !.racy = TRUE] ELSE @[c][j]]]]

\* the oldest unfinished delivery of that event has returned
Delivered(s, k, ref) ==
  LET ids  == UNION {{s.inbox[c][j].id : j \in {j \in DOMAIN s.inbox[c] :
                        ~s.inbox[c][j].done /\ s.inbox[c][j].k = k /\ s.inbox[c][j].ref = ref}} : c \in DOMAIN s.inbox}
  IN  IF ids = {} THEN s
      ELSE LET id == Min(ids) IN
           [s EXCEPT !.inbox = [c \in DOMAIN @ |->
              [j \in DOMAIN @[c] |-> IF @[c][j].id = id THEN [@[c][j] EXCEPT !.done = TRUE] ELSE @[c][j]]]]

\* positions of node c's deliveries that may be worked off next
Processable(s, c) ==
  {j \in DOMAIN s.inbox[c] :
     \A i \in DOMAIN s.inbox[c] : s.inbox[c][i].id \notin s.inbox[c][j].after}


(* Matching state of a (parallel-)multiple catch event: a transcription of   *)
(* the chain algorithm that Satisfier.tla verifies against the counting      *)
(* properties of C14.  Returns <<matched, chains'>>.                         *)
Satisfy(n, chains, x) ==
  LET i == DefIndex(n, x)
      N == Len(n.evs)
  IN  IF i = 0 THEN <<FALSE, chains>>
      ELSE IF ~n.parallel \/ N = 1 THEN <<TRUE, chains>>
      ELSE LET open == {j \in DOMAIN chains : i \notin chains[j]}
           IN  IF open = {}
               THEN <<FALSE, Append(chains, {i})>>
               ELSE LET j  == Min(open)
                        cj == chains[j] \cup {i}
                    IN  IF cj = 1..N
                        THEN \* the completed chain is replaced by the last one
                             <<TRUE, [m \in 1..(Len(chains) - 1) |-> IF m = j THEN chains[Len(chains)] ELSE chains[m]]>>
                        ELSE <<FALSE, [chains EXCEPT ![j] = cj]>>

\* the effect of node c catching its event: listeners continue
Caught(s, c) ==
  LET n == Node(s.p, c) IN
  IF n.kind = "boundary"
  THEN LET hosts == Listeners(s, c)
           h == CHOOSE t \in hosts : TRUE
           exc == Tok(c, "in", 0, "", h.tag, h.inst)
           \* tokens of the interrupted activity: the host token itself and, for
           \* a sub-process host, every token of that activation of the scope
           gone == {h} \cup (IF h.st = "sub" THEN {t \in Toks(s) : h.occ \in SeqRange(t.inst)} ELSE {})
       IN  IF s.asis
           THEN \* as-is: the exception flow starts (once ever), the host is left alone
                [s EXCEPT !.tok = AddToks(@, {exc}), !.bfired = @ \cup {c}]
           ELSE IF n.intr
           THEN \* interrupting: the exception flow replaces the normal flow;
                \* an answer to an interrupted request has no effect any more
                [s EXCEPT !.tok = AddToks([t \in DOMAIN @ \ gone |-> @[t]], {exc}),
                          !.intr = @ \cup {<<t.at, t.occ>> : t \in {u \in gone : u.st = "req"}}]
           ELSE [s EXCEPT !.tok = AddToks(@, {exc})]
  ELSE LET L == Listeners(s, c)
           rel(t) == IF t.race = 0 THEN [t EXCEPT !.st = "in"] ELSE [t EXCEPT !.st = "cand"]
       IN  [s EXCEPT !.tok = [u \in (DOMAIN @ \ L) \cup {rel(t) : t \in L} |->
                                 IF u \in DOMAIN @ \ L THEN @[u]
                                 ELSE @[CHOOSE t \in L : rel(t) = u]]]

\* working off delivery j of node c while something listens: observed
ObserveMove(s, c, j) ==
  LET n  == Node(s.p, c)
      x  == s.inbox[c][j]
      r  == Satisfy(n, s.sat[c], x)
      s1 == [s EXCEPT !.inbox[c] = RemoveAt(@, j), !.sat[c] = r[2]]
  IN  Mv(LabA("observed", c, IF x.racy THEN 1 ELSE 0, <<x.k, x.ref>>),
         IF r[1] THEN (IF x.old THEN [s1 EXCEPT !.stale = @ \ {c}] ELSE Caught([s1 EXCEPT !.stale = @ \ {c}], c)) ELSE s1)

DropMove(s, c, j) == Mv(Tau, [s EXCEPT !.inbox[c] = RemoveAt(@, j)])

EventObsMoves(s) ==
  UNION {{ObserveMove(s, c, j) : j \in Processable(s, c)} : c \in {c \in DOMAIN s.inbox : Armed(s, c)}}

\* a finished delivery at a node where nothing listens or is arriving is dropped
EventDropMust(s) ==
  UNION {{DropMove(s, c, j) : j \in {j \in Processable(s, c) :
             s.inbox[c][j].done /\ ~s.inbox[c][j].racy /\ (Arriving(s, c) = {} \/ s.inbox[c][j].old)}}
           : c \in {c \in DOMAIN s.inbox : ~Armed(s, c)}}
\* an unfinished or racing delivery may be dropped at any time
EventDropMay(s) ==
  UNION {{DropMove(s, c, j) : j \in {j \in Processable(s, c) :
             \/ s.inbox[c][j].racy
             \/ (~Armed(s, c) /\ ~(s.inbox[c][j].done /\ Arriving(s, c) = {}))}}
           : c \in DOMAIN s.inbox}

\* an arrived token starts listening; the engine announces it unless the node
\* is already listening
ListenMoves(s) ==
  { Mv(IF Listeners(s, t.at) = {} /\ t.at \notin s.stale THEN Lab("listening", t.at, 0) ELSE Tau,
       [s EXCEPT !.tok = AddToks(DelTok(@, t), {[t EXCEPT !.st = "listen"]}),
                 !.armn[t.at] = @ + 1,
                 !.lstn[t.at] = IF Listeners(s, t.at) = {} /\ t.at \notin s.stale THEN @ + 1 ELSE @])
    \* (the node works its inbox off in order: deliveries that had returned before the token
    \* arrived come first)
    : t \in {u \in Toks(s) : u.st = "arriving" /\ \A j \in DOMAIN s.inbox[u.at] : ~s.inbox[u.at][j].old} }

\* the boundary events of an activity are armed (and announce it, once) when
\* the activity is first activated
ArmMoves(s) ==
  { Mv(Lab("listening", b, 0), [s EXCEPT !.lstn[b] = 1])
    : b \in {b \in NodesOfKind(s.p, "boundary") : s.lstn[b] = 0 /\ Listeners(s, b) # {}} }

(* Event-based gateway: among the alternatives whose event was caught exactly *)
(* one is determined the winner and continues; every other alternative of the *)
(* activation is withdrawn.                                                   *)
DetermineMoves(s) ==
  { Mv(Lab("determination", w.via, 0),
       [s EXCEPT !.tok = [u \in {v \in DOMAIN @ : v.race # w.race} \cup {[w EXCEPT !.st = "in", !.race = 0, !.via = ""]} |->
                            IF u \in DOMAIN @ /\ u.race # w.race THEN @[u] ELSE 1],
                 !.stale = @ \cup {u.at : u \in {v \in Toks(s) : v.race = w.race /\ v # w /\ v.st = "listen"}},
                 !.ghost = @ \cup {<<Flow(s.p, u.at).dst, "flow">> : u \in {v \in Toks(s) : v.race = w.race /\ v # w /\ v.st = "flow"}}
                             \cup {<<u.at, "arriving">> : u \in {v \in Toks(s) : v.race = w.race /\ v # w /\ v.st = "arriving"}}])
    : w \in {u \in Toks(s) : u.st = "cand"} }

(* Environment: answering a task request.  Only declared result names are    *)
(* stored.                                                                   *)
ReqToks(s) == {t \in Toks(s) : t.st = "req"}

Store(i, n, vars, payload) ==
  LET W == SeqRange(n.writes) \cap DOMAIN payload
  IN  [v \in DOMAIN vars \cup W |-> IF v \in W THEN payload[v] ELSE vars[v]]

AnswerOK(s, t, payload) ==
  [s EXCEPT !.vars = Store(s.p, Node(s.p, t.at), @, payload), !.hact = @ \ {t.at},
            !.tok  = AddToks(DelTok(@, t), {[t EXCEPT !.st = "in", !.occ = 0, !.att = 0, !.cands = {}]})]

(* An answer carrying an error: the engine first reports it (error trace),   *)
(* then continues (no handler, or skip: the results of that answer are       *)
(* stored), stops the token (exit), or requests the same task again at most  *)
(* the given number of additional times (retry).                             *)
AnswerErr(s, t, payload, kind, n) ==
  [s EXCEPT !.hact = @ \ {t.at},
            !.tok = AddToks(DelTok(@, t),
       {[t EXCEPT !.st = "errp", !.mode = kind, !.mn = n, !.pl = payload, !.cands = {}]})]

AnswerAny(s, t, payload, kind, n) ==
  IF kind = "" THEN AnswerOK(s, t, payload) ELSE AnswerErr(s, t, payload, kind, n)

TaskErrMoves(s) ==
  { LET rest  == DelTok(s.tok, t)
        clean == [t EXCEPT !.mode = "", !.mn = 0, !.pl = <<>>]
    IN  CASE t.mode \in {"err", "skip"} ->
               Mv(Lab("taskerr", t.at, 0),
                  [s EXCEPT !.vars = Store(s.p, Node(s.p, t.at), @, t.pl),
                            !.tok  = AddToks(rest, {[clean EXCEPT !.st = "in", !.occ = 0, !.att = 0]})])
          [] t.mode = "retry" /\ t.att < t.mn ->
               Mv(Lab("taskerr", t.at, 0),
                  [s EXCEPT !.tok = AddToks(rest, {[clean EXCEPT !.st = "rereq", !.att = t.att + 1]})])
          [] OTHER ->   \* exit, or retries exhausted: the token stops here
               Mv(Lab("taskerr", t.at, 0), [s EXCEPT !.tok = rest, !.nkill = @ + 1])
    : t \in {u \in Toks(s) : u.st = "errp"} }

RereqMoves(s) ==
  { LET k == s.reqn[t.at] + 1 IN
    Mv(Lab("req", t.at, k),
       [s EXCEPT !.reqn[t.at] = k, !.hact = @ \cup {t.at},
                 !.tok = AddToks(DelTok(@, t), {[t EXCEPT !.st = "req", !.occ = k]})])
    : t \in {u \in Toks(s) : u.st = "rereq"} }

Payloads(i, n) ==
  LET W == SeqRange(n.writes)
      D == UNION {SeqRange(DomOf(i)[w]) : w \in W}
  IN  {f \in [W -> D] : \A w \in W : f[w] \in SeqRange(DomOf(i)[w])}


(* Completion: all start events fired and no token remains.                  *)
Live(s)     == {t \in Toks(s) : t.st \notin {"err", "dead"}}
Complete(s) == /\ s.started /\ Toks(s) = {}
               \* (as-is: an armed boundary listener that has not fired is a live flow)
               /\ s.asis => \A b \in NodesOfKind(s.p, "boundary") : s.lstn[b] = 0 \/ b \in s.bfired
CeaseMoves(s) ==
  IF Complete(s) /\ ~s.ceased THEN {Mv(Lab("cease", "", 0), [s EXCEPT !.ceased = TRUE])} ELSE {}

Moves(s)    == LeaveMoves(s) \cup ArriveMoves(s) \cup AndMoves(s) \cup OrMoves(s)
                 \cup SubExitMoves(s) \cup CeaseMoves(s) \cup TaskErrMoves(s) \cup RereqMoves(s)
                 \cup EventObsMoves(s) \cup EventDropMust(s) \cup ListenMoves(s) \cup DetermineMoves(s)
                 \cup ArmMoves(s)
TauMoves(s) == {m \in Moves(s) : m.lab.ev = "tau"}
ObsMoves(s) == {m \in Moves(s) : m.lab.ev # "tau"}

RECURSIVE CloseTau(_)
CloseTau(s) == LET ms == TauMoves(s)
               IN  IF ms = {} THEN s ELSE CloseTau((CHOOSE m \in ms : TRUE).s)

MayMoves(s) == OrMayMoves(s) \cup EventDropMay(s)

RECURSIVE CloseAll(_)
CloseAll(s) == LET ms == Moves(s)
               IN  IF ms = {} THEN s ELSE CloseAll((CHOOSE m \in ms : TRUE).s)

\* closure used when the environment has nothing left to do: a move that is
\* merely allowed has to happen eventually if nothing else can
RECURSIVE CloseQuiet(_)
CloseQuiet(s) ==
  LET s1 == CloseAll(s) IN
  IF {t \in Toks(s1) : t.st = "req"} = {} /\ MayMoves(s1) # {}
  THEN CloseQuiet((CHOOSE m \in MayMoves(s1) : TRUE).s)
  ELSE s1

\* all states reachable by taking allowed-but-not-forced moves (each followed
\* by the eager tau closure), including the state itself
RECURSIVE ExpandFrom(_, _)
ExpandFrom(frontier, seen) ==
  IF frontier = {} THEN seen
  ELSE LET nxt == {CloseTau(m.s) : m \in UNION {{mm \in MayMoves(x) : mm.lab.ev = "tau"} : x \in frontier}} \ seen
       IN  ExpandFrom(nxt, seen \cup nxt)
Expand(s) == ExpandFrom({s}, {s})

-----------------------------------------------------------------------------
(* The specification proper (fine-grained): used for model checking the      *)
(* token game itself over a program family.                                  *)
VARIABLE s

TGInit == \E i \in 1..NProg : s = Started(InitState(i))

Internal == \E m \in Moves(s) : s' = m.s
Answer   == \E t \in ReqToks(s) : \E pl \in Payloads(s.p, Node(s.p, t.at)) : s' = AnswerOK(s, t, pl)

TGNext == Internal \/ Answer
TGSpec == TGInit /\ [][TGNext]_s /\ WF_s(TGNext)

(* Properties of the game itself *)
TypeOK == /\ s.p \in 1..NProg
          /\ \A t \in Toks(s) : t.st \in {"flow", "in", "req", "join", "sub", "arriving", "listen", "cand", "err", "errp", "rereq"}

\* never two unanswered requests with the same number; counters match
RequestedOncePerToken ==
  \A t \in ReqToks(s) : s.tok[t] = 1 /\ t.occ <= s.reqn[t.at]

\* a state without any enabled move and without pending request is either
\* complete or holds only error/dead tokens: block-structured programs never
\* deadlock
Stuck(st) == Moves(st) = {} /\ ReqToks(st) = {}
NoDeadToken == (Stuck(s) /\ Live(s) = Toks(s) /\ s.nkill = 0) => (Live(s) = {})
CeasedOnlyWhenEmpty == s.ceased => Toks(s) = {}
EventuallyQuiet == <>[](Moves(s) = {})
=============================================================================
