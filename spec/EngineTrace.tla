---------------------------- MODULE EngineTrace ----------------------------
(***************************************************************************)
(* Fidelity of Engine.tla: the real engine's OWN trace stream (one total   *)
(* order produced by the instance's tracer goroutine: NewFlowTrace,        *)
(* FlowTrace, TerminationTrace, CompletionTrace, TaskTrace,                *)
(* IncomingFlowProcessedTrace, ErrorTrace, CeaseFlowTrace) interleaved     *)
(* with the driver's own records (started, ans, wait, fin) must be a       *)
(* behaviour of Engine.tla.  Every trace is emitted by exactly one action  *)
(* of the model (its label); the actions that emit nothing -- a request    *)
(* put into an inbox, a gateway answering, the monitor's steps -- are not  *)
(* logged and are INFERRED by TLC: between two records any number of       *)
(* silent actions may happen.  Runs are concatenated ("init" starts one);  *)
(* a run is accepted when some path consumes its "fin" record; the         *)
(* furthest record reached is reported for a run that is not.              *)
(*                                                                         *)
(* This is what justifies transferring TLC's exhaustive result about       *)
(* Engine.tla (every goroutine interleaving) to the code: the code's       *)
(* executions are executions of the model.  A mismatch on a changed tree   *)
(* says the code no longer follows this model; it is reported, not a       *)
(* verdict about a property.                                               *)
(***************************************************************************)
EXTENDS Engine

CONSTANTS TraceFile, OutFile

Log == ndJsonDeserialize(TraceFile)

VARIABLES l,      \* next record
          owed    \* termination traces still to come from flows that completed / left only forks

ASSUME TLCSet(1, {}) /\ TLCSet(2, <<>>)

Silent(lab) == lab.ev \notin {"newflow", "flowtrace", "flowtrace+termination", "termination", "completion",
                              "req", "error", "cease", "ifp", "invalidstate"}

ByLabel(st, P(_)) == {m.e : m \in {m \in EInternal(st) : P(m.lab)}}

Bump(o, n) == [x \in DOMAIN o \cup {n} |-> IF x = n THEN (IF n \in DOMAIN o THEN o[n] ELSE 0) + 1 ELSE o[x]]

\* successors <<engine state, owed>> that explain record r
Match(st, o, r) ==
  CASE r.ev = "started" -> IF r.ok /\ st.todo = <<>> THEN {<<st, o>>} ELSE {}
    [] r.ev = "newflow" -> {<<x, o>> : x \in ByLabel(st, LAMBDA b : b.ev = "newflow")}
    [] r.ev = "flow" ->
         {<<x, o>> : x \in ByLabel(st, LAMBDA b : b.ev = "flowtrace" /\ b.node = r.node /\ b.arg = r.flows)}
         \cup {<<x, Bump(o, r.node)>> : x \in ByLabel(st, LAMBDA b : b.ev = "flowtrace+termination" /\ b.node = r.node /\ b.arg = r.flows)}
    [] r.ev = "completion" ->
         {<<x, Bump(o, r.node)>> : x \in ByLabel(st, LAMBDA b : b.ev = "completion" /\ b.node = r.node)}
    [] r.ev = "termination" ->
         (IF r.node \in DOMAIN o /\ o[r.node] > 0 THEN {<<st, [o EXCEPT ![r.node] = @ - 1]>>} ELSE {})
         \cup {<<x, o>> : x \in ByLabel(st, LAMBDA b : b.ev = "termination" /\ b.node = r.node)}
    [] r.ev = "req" ->
         {<<x, o>> : x \in {y \in ByLabel(st, LAMBDA b : b.ev = "req" /\ b.node = r.node) : y.reqn[r.node] = r.occ}}
    [] r.ev = "ifp" -> {<<x, o>> : x \in ByLabel(st, LAMBDA b : b.ev = "ifp" /\ b.node = r.node)}
    [] r.ev = "error" ->
         IF r.kind = "noflow" THEN {<<x, o>> : x \in ByLabel(st, LAMBDA b : b.ev = "error" /\ b.node = r.node)} ELSE {}
    [] r.ev = "cease" -> {<<x, o>> : x \in ByLabel(st, LAMBDA b : b.ev = "cease")}
    [] r.ev = "ans" ->
         {<<[st EXCEPT !.reqs = @ \ {q}, !.resp[q.f] = FlowAct(Node(st.p, q.task).out, FALSE, r.vars)], o>>
            : q \in {q \in st.reqs : q.task = r.node /\ q.occ = r.occ}}
    \* WaitUntilComplete returned: true only after the monitor released the completion lock
    [] r.ev = "wait" -> IF r.ok => st.ceased THEN {<<st, o>>} ELSE {}
    \* end of the run (after the final wait and a grace period): nothing moves any more
    [] r.ev = "fin" ->
         IF /\ EInternal(st) = {}
            /\ Cardinality(st.reqs) = r.n
            /\ st.ceased = r.ok
            /\ \A n \in DOMAIN o : o[n] = 0
            /\ DOMAIN r.vars = DOMAIN st.vars /\ \A v \in DOMAIN st.vars : r.vars[v] = st.vars[v]
         THEN {<<st, o>>} ELSE {}
    [] OTHER -> {}

TInit == /\ l = 1 /\ owed = <<>>
         /\ e = EInit(CHOOSE i \in 1..NProg : TRUE)
         /\ s = InitState(1)

NextInit(k) == LET J == {j \in k..Len(Log) : Log[j].ev = "init"} IN IF J = {} THEN Len(Log) + 1 ELSE Min(J)

Mark(run, pos) ==
  LET m == TLCGet(2) IN
  TLCSet(2, [x \in DOMAIN m \cup {run} |-> IF x = run THEN (IF run \in DOMAIN m /\ m[run] > pos THEN m[run] ELSE pos) ELSE m[x]])

TSilent ==
  /\ l <= Len(Log) /\ Log[l].ev # "init"
  /\ \E m \in EInternal(e) : Silent(m.lab) /\ e' = m.e
  /\ UNCHANGED <<l, owed, s>>

TConsume ==
  /\ l <= Len(Log)
  /\ LET r == Log[l] IN
     IF r.ev = "init"
     THEN /\ e' = EInit(r.n + 1) /\ owed' = <<>> /\ l' = l + 1
     ELSE /\ \E x \in Match(e, owed, r) : e' = x[1] /\ owed' = x[2]
          /\ l' = l + 1
          /\ Mark(r.run, l)
          /\ (r.ev = "fin" => TLCSet(1, TLCGet(1) \cup {r.run}))
  /\ UNCHANGED s

\* give up on the current run (it stays unaccepted) so that the following runs are still examined
TSkip ==
  /\ l <= Len(Log) /\ Log[l].ev # "init"
  /\ l' = NextInit(l) /\ UNCHANGED <<e, owed, s>>

TNext == TSilent \/ TConsume \/ TSkip
TraceSpec == TInit /\ [][TNext]_<<e, s, l, owed>>

\* the model's own invariants hold in every state a real execution passes through
TraceTypeOK == e.nf <= MaxFlows /\ e.inv = 0

Report ==
  LET m == TLCGet(2) IN
  JsonSerialize(OutFile, [accepted |-> SetToSeq(TLCGet(1)),
                          reached  |-> [x \in {ToString(k) : k \in DOMAIN m} |-> m[CHOOSE k \in DOMAIN m : ToString(k) = x]],
                          len      |-> Len(Log)])
=============================================================================
