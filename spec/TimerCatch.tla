----------------------------- MODULE TimerCatch -----------------------------
(***************************************************************************)
(* C13, engine part: "a timer catch event in a process continues exactly   *)
(* once per firing it was listening for".                                  *)
(*                                                                         *)
(* Instances of ONE definitions document (start -> task T -> timer catch   *)
(* event -> task U -> end) are built through ONE event-definition-instance *)
(* builder against one mock clock.  The timer of an instance is created    *)
(* when the instance is built (that is when a duration starts to count);   *)
(* its firing is an event like any other: the catch event continues iff it *)
(* is listening when the firing arrives, otherwise the firing is dropped.  *)
(*                                                                         *)
(* Environment steps (one at a time, the instance settles in between):     *)
(*   Create(i)   build and start instance i at the current clock reading   *)
(*   Arm(i)      answer task T of instance i: its token reaches the catch  *)
(*               event, which starts listening                             *)
(*   Advance(d)  the clock moves d seconds forward                         *)
(* Kind: "duration" (due = creation time + D) or "date" (due = D on the    *)
(* clock, whenever the instance was created; an instance created after     *)
(* that instant has a timer that fires at once).                           *)
(*                                                                         *)
(* TLC enumerates every history up to MaxOps steps and exports it with the *)
(* expected number of continuations of every instance after every step;    *)
(* the Go side (drive/timercatchrun.go) replays each history on the real   *)
(* engine and compares.                                                    *)
(***************************************************************************)
EXTENDS Integers, Sequences, FiniteSets, TLC, Json

CONSTANTS OutFile, MaxOps, Insts, Kinds, D, Steps   \* Steps: the clock advances offered

VARIABLES kind, now, st, h
\* st[i]: [phase: "none" | "built" | "listening" | "continued", due, fired, cont]
vars == <<kind, now, st, h>>

None == [phase |-> "none", due |-> 0, fired |-> FALSE, cont |-> 0]
Init == /\ kind \in Kinds /\ now = 0 /\ st = [i \in Insts |-> None] /\ h = <<>>

\* the timers that become due fire; a firing reaches the catch event only if it is listening
Fire(s, t) ==
  [i \in Insts |->
     IF s[i].phase # "none" /\ ~s[i].fired /\ t >= s[i].due
     THEN IF s[i].phase = "listening"
          THEN [s[i] EXCEPT !.fired = TRUE, !.phase = "continued", !.cont = @ + 1]
          ELSE [s[i] EXCEPT !.fired = TRUE]            \* nobody listens: dropped
     ELSE s[i]]

Expect(s) == [i \in Insts |-> s[i].cont]
Rec(op, i, d, s) == [op |-> op, inst |-> i, d |-> d, cont |-> Expect(s), now |-> now']

Create(i) ==
  /\ st[i].phase = "none"
  /\ \A j \in Insts : j < i => st[j].phase # "none"        \* instances are created in order
  /\ now' = now
  /\ LET due == IF kind = "duration" THEN now + D ELSE D
         s1  == [st EXCEPT ![i] = [phase |-> "built", due |-> due, fired |-> FALSE, cont |-> 0]]
         \* a date already passed: the timer fires at once, into nothing
         s2  == Fire(s1, now)
     IN  st' = s2 /\ h' = Append(h, Rec("create", i, 0, s2))
  /\ UNCHANGED kind

Arm(i) ==
  /\ st[i].phase = "built"
  /\ now' = now
  /\ LET s1 == [st EXCEPT ![i].phase = "listening"]
     IN  st' = s1 /\ h' = Append(h, Rec("arm", i, 0, s1))
  /\ UNCHANGED kind

Advance(d) ==
  /\ \E i \in Insts : st[i].phase # "none"
  /\ now' = now + d
  /\ LET s1 == Fire(st, now + d)
     IN  st' = s1 /\ h' = Append(h, Rec("advance", 0, d, s1))
  /\ UNCHANGED kind

Next == /\ Len(h) < MaxOps
        /\ \/ \E i \in Insts : Create(i) \/ Arm(i)
           \/ \E d \in Steps : Advance(d)
Spec == Init /\ [][Next]_vars

\* never early: a continuation happened at a clock reading >= the timer's due time
NeverEarly == \A i \in Insts : st[i].cont > 0 => now >= st[i].due
\* a date / duration timer makes its catch event continue at most once
AtMostOnce == \A i \in Insts : st[i].cont <= 1
\* ... and exactly once when the catch event was listening before the due time came: a catch
\* event still listening for a timer that has not fired means the due time has not come
ListenedThenFired ==
  \A i \in Insts : (st[i].phase = "listening" /\ ~st[i].fired) => now < st[i].due
\* the instances do not share a timer: each due time is that instance's own
OwnTimer == \A i \in Insts : (st[i].phase # "none" /\ kind = "duration") => st[i].due >= D

ASSUME TLCSet(1, <<>>)
Record == (Len(h) = MaxOps) => TLCSet(1, Append(TLCGet(1), [kind |-> kind, d |-> D, steps |-> h]))
Dump == ndJsonSerialize(OutFile, TLCGet(1))
=============================================================================
