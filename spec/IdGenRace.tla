----------------------------- MODULE IdGenRace -----------------------------
(***************************************************************************)
(* C20 (level M): the draw path of muyo/sno's Generator.New as used by     *)
(* pkg/id, one action per atomic operation, for ONE generator and several  *)
(* concurrent callers:                                                     *)
(*    read   : wallHi := load(g.wallHi); wallNow := clock                  *)
(*    fast   : wallNow = wallHi  ->  seq := add(g.seq, 1); issue (wallNow, seq)  *)
(*    cas    : wallNow > wallHi  ->  CAS(g.wallHi, wallHi, wallNow)        *)
(*    reset  : store(g.seq, 0); issue (wallNow, 0)                         *)
(* With Serialised = FALSE (the library as it is) TLC finds two callers    *)
(* issuing the same (time unit, sequence): one caller has published the    *)
(* new unit (cas) but not yet reset the sequence while others continue the *)
(* old sequence in the new unit.  With Serialised = TRUE (pkg/id holds a   *)
(* mutex around New, the repair) Distinct holds.                           *)
(***************************************************************************)
EXTENDS Integers, FiniteSets, TLC

CONSTANTS Callers, MaxTick, MaxIds, Serialised

VARIABLES tick, wallHi, seq, pc, lhi, lnow, issued, dup, lock
vars == <<tick, wallHi, seq, pc, lhi, lnow, issued, dup, lock>>

Init == /\ tick = 0 /\ wallHi = 0 /\ seq = 0
        /\ pc = [c \in Callers |-> "idle"] /\ lhi = [c \in Callers |-> 0] /\ lnow = [c \in Callers |-> 0]
        /\ issued = {} /\ dup = FALSE /\ lock = FALSE

Tick == tick < MaxTick /\ tick' = tick + 1 /\ UNCHANGED <<wallHi, seq, pc, lhi, lnow, issued, dup, lock>>

Issue(id) == /\ dup' = (dup \/ id \in issued) /\ issued' = issued \cup {id}

Begin(c) ==
  /\ pc[c] = "idle" /\ Cardinality(issued) < MaxIds
  /\ (Serialised => ~lock) /\ lock' = (IF Serialised THEN TRUE ELSE lock)
  /\ pc' = [pc EXCEPT ![c] = "read"]
  /\ UNCHANGED <<tick, wallHi, seq, lhi, lnow, issued, dup>>

Read(c) ==
  /\ pc[c] = "read"
  /\ lhi' = [lhi EXCEPT ![c] = wallHi] /\ lnow' = [lnow EXCEPT ![c] = tick]
  /\ pc' = [pc EXCEPT ![c] = IF tick = wallHi THEN "fast" ELSE "cas"]
  /\ UNCHANGED <<tick, wallHi, seq, issued, dup, lock>>

Done(c) == /\ pc' = [pc EXCEPT ![c] = "idle"] /\ lock' = (IF Serialised THEN FALSE ELSE lock)

Fast(c) ==
  /\ pc[c] = "fast"
  /\ seq' = seq + 1 /\ Issue(<<lnow[c], seq + 1>>) /\ Done(c)
  /\ UNCHANGED <<tick, wallHi, lhi, lnow>>

Cas(c) ==
  /\ pc[c] = "cas"
  /\ IF wallHi = lhi[c]
     THEN wallHi' = lnow[c] /\ pc' = [pc EXCEPT ![c] = "reset"]
     ELSE UNCHANGED wallHi /\ pc' = [pc EXCEPT ![c] = "read"]     \* lost the race: retry
  /\ UNCHANGED <<tick, seq, lhi, lnow, issued, dup, lock>>

Reset(c) ==
  /\ pc[c] = "reset"
  /\ seq' = 0 /\ Issue(<<lnow[c], 0>>) /\ Done(c)
  /\ UNCHANGED <<tick, wallHi, lhi, lnow>>

Next == Tick \/ \E c \in Callers : Begin(c) \/ Read(c) \/ Fast(c) \/ Cas(c) \/ Reset(c)
Spec == Init /\ [][Next]_vars
Distinct == ~dup
=============================================================================
