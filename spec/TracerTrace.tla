---------------------------- MODULE TracerTrace ----------------------------
(***************************************************************************)
(* C09, direction B: recorded runs of the real tracer (harness: concurrent *)
(* senders, subscribers that join and leave, consumers of various speeds)  *)
(* are validated against the tracer's observable contract:                 *)
(*   - there is ONE global order (the order in which the tracer took the   *)
(*     traces, logged at the tracer.take hook, i.e. at the linearization   *)
(*     point); it respects every sender's program order, and a trace is    *)
(*     taken only after its Send was called;                               *)
(*   - every subscriber receives a contiguous slice of that order, starting*)
(*     at a position inside its subscribe call..return window, with none   *)
(*     dropped, duplicated or reordered, up to its unsubscription;         *)
(*   - a subscriber that stays subscribed has received everything by the   *)
(*     time the system is quiet;                                           *)
(*   - after cancellation the tracer terminates and closes every remaining *)
(*     subscriber channel exactly once.                                    *)
(* Many runs are concatenated ("init" starts a run).                       *)
(***************************************************************************)
EXTENDS Integers, Sequences, FiniteSets, TLC, Json, SequencesExt

CONSTANTS TraceFile, OutFile
Log == ndJsonDeserialize(TraceFile)

VARIABLES l, ok, st
ASSUME TLCSet(1, {}) /\ TLCSet(2, {})

SubIds == {"a", "b", "c", "d"}
Fresh(np) ==
  [order |-> <<>>,
   callk |-> [p \in 1..np |-> 0], taken |-> [p \in 1..np |-> 0], retk |-> [p \in 1..np |-> 0],
   sst   |-> [s \in SubIds |-> "out"],   \* out | subscribing | in | leaving | gone | void | voidleaving
   lo    |-> [s \in SubIds |-> 0], hi |-> [s \in SubIds |-> 0],
   pos   |-> [s \in SubIds |-> 0],        \* next expected index, 0 = not determined yet
   nclosed |-> [s \in SubIds |-> 0],
   cancelled |-> FALSE, done |-> FALSE]

Step(s, e) ==
  CASE e.ev = "send_call" ->
         IF e.k = s.callk[e.p] + 1 THEN {[s EXCEPT !.callk[e.p] = e.k]} ELSE {}
    [] e.ev = "take" ->
         IF e.k = s.taken[e.p] + 1 /\ s.callk[e.p] >= e.k /\ ~s.done
         THEN {[s EXCEPT !.taken[e.p] = e.k, !.order = Append(@, <<e.p, e.k>>)]} ELSE {}
    [] e.ev = "send_ret" ->
         \* (the take record is written by the tracer goroutine just after the
         \* rendezvous, so it may follow the sender's return record)
         IF e.k = s.retk[e.p] + 1 /\ s.callk[e.p] >= e.k THEN {[s EXCEPT !.retk[e.p] = e.k]} ELSE {}
    [] e.ev = "sub_call" ->
         IF s.sst[e.s] = "out" THEN {[s EXCEPT !.sst[e.s] = "subscribing", !.lo[e.s] = Len(s.order) + 1]} ELSE {}
    [] e.ev = "sub_ret" ->
         \* (a subscription requested after the tracer has terminated is void; the
         \* harness learns of the termination -- record "done" -- only some time after
         \* it happened, so from the moment termination is possible a returning
         \* subscription may be either)
         IF s.sst[e.s] = "subscribing"
         THEN LET mayBeOver == s.cancelled /\ \A p \in DOMAIN s.retk : s.retk[p] = s.callk[p] IN
              (IF s.done THEN {} ELSE {[s EXCEPT !.sst[e.s] = "in", !.hi[e.s] = Len(s.order) + 1]})
              \cup (IF s.done \/ mayBeOver THEN {[s EXCEPT !.sst[e.s] = "void", !.hi[e.s] = Len(s.order) + 1]} ELSE {})
         ELSE {}
    [] e.ev = "recv" ->
         IF s.sst[e.s] \notin {"in", "leaving"} THEN {}
         ELSE IF s.pos[e.s] = 0
         THEN \* the first receipt fixes where the subscription took effect
              {[s EXCEPT !.pos[e.s] = j + 1] :
                 j \in {j \in s.lo[e.s]..s.hi[e.s] : j <= Len(s.order) /\ s.order[j] = <<e.p, e.k>>}}
         ELSE IF s.pos[e.s] <= Len(s.order) /\ s.order[s.pos[e.s]] = <<e.p, e.k>>
         THEN {[s EXCEPT !.pos[e.s] = @ + 1]} ELSE {}
    [] e.ev = "unsub_call" ->
         IF s.sst[e.s] = "in" THEN {[s EXCEPT !.sst[e.s] = "leaving"]}
         ELSE IF s.sst[e.s] = "void" THEN {[s EXCEPT !.sst[e.s] = "voidleaving"]} ELSE {}
    [] e.ev = "unsub_ret" ->
         IF s.sst[e.s] \in {"leaving", "voidleaving"} THEN {[s EXCEPT !.sst[e.s] = "gone"]} ELSE {}
    [] e.ev = "quiet" ->
         \* everything sent has been taken ...
         IF \E p \in DOMAIN s.retk : s.taken[p] < s.retk[p] THEN {} ELSE
         \* everyone still subscribed holds everything taken after its subscription took effect
         IF \A x \in SubIds : s.sst[x] = "in" =>
               IF s.pos[x] = 0 THEN Len(s.order) < s.hi[x] ELSE s.pos[x] = Len(s.order) + 1
         THEN {s} ELSE {}
    [] e.ev = "cancel" -> {[s EXCEPT !.cancelled = TRUE]}
    [] e.ev = "done" ->
         \* termination only after cancellation and after every sender finished
         IF s.cancelled /\ \A p \in DOMAIN s.retk : s.retk[p] = s.callk[p] THEN {[s EXCEPT !.done = TRUE]} ELSE {}
    [] e.ev = "closed" ->
         \* (termination may overtake a subscriber that is just leaving)
         IF s.cancelled /\ s.sst[e.s] \in {"in", "leaving"} /\ s.nclosed[e.s] = 0 THEN {[s EXCEPT !.nclosed[e.s] = 1]} ELSE {}
    [] e.ev = "end" ->
         IF s.cancelled => (s.done /\ \A x \in SubIds : s.sst[x] = "in" => s.nclosed[x] = 1)
         THEN {s} ELSE {}
    [] OTHER -> {}      \* "blocked" and anything unknown: not a behaviour of the tracer

Init == l = 1 /\ ok = FALSE /\ st = Fresh(1)

Next ==
  /\ l <= Len(Log)
  /\ l' = l + 1
  /\ LET e == Log[l] IN
     IF e.ev = "init" THEN st' = Fresh(e.p) /\ ok' = TRUE
     ELSE IF ~ok THEN UNCHANGED <<st, ok>>
     ELSE LET S == Step(st, e) IN
          IF S = {} THEN /\ ok' = FALSE /\ st' = st
                         /\ TLCSet(2, TLCGet(2) \cup {<<e.run, l, e.ev, e.s>>})
          ELSE /\ st' \in S /\ ok' = TRUE
               /\ (e.ev = "end" => TLCSet(1, TLCGet(1) \cup {e.run}))

TraceSpec == Init /\ [][Next]_<<l, ok, st>>

Report == JsonSerialize(OutFile, [accepted |-> SetToSeq(TLCGet(1)), failures |-> SetToSeq(TLCGet(2)), len |-> Len(Log)])
=============================================================================
