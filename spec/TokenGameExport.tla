-------------------------- MODULE TokenGameExport --------------------------
(***************************************************************************)
(* Direction A: TLC enumerates the environment schedules of the token game *)
(* (macro steps: one environment action followed by the closure of all     *)
(* internal moves) for every program of the family, checks the game's own  *)
(* invariants on the way, and writes every maximal schedule as JSON.  The  *)
(* Go driver replays each schedule on the real engine; the recorded run is *)
(* then judged by TokenGameTrace.                                          *)
(*                                                                         *)
(* Each step carries `pre`: the cumulative observable counters of the game *)
(* state in which the action is taken, so the driver knows what to wait    *)
(* for before acting and never has to guess quiescence.                    *)
(***************************************************************************)
EXTENDS TokenGame

CONSTANTS OutFile, MaxSteps

VARIABLES h

ASSUME TLCSet(1, <<>>)

Cnt(st) == [req |-> st.reqn, end |-> st.ended, err |-> st.errs,
            cease |-> IF st.ceased THEN 1 ELSE 0]

XInit == \E i \in 1..NProg : s = CloseQuiet(Started(InitState(i))) /\ h = <<>>

XAnswer ==
  /\ Len(h) < MaxSteps
  /\ \E t \in ReqToks(s) : \E pl \in Payloads(s.p, Node(s.p, t.at)) :
        /\ s' = CloseQuiet(AnswerOK(s, t, pl))
        /\ h' = Append(h, [op |-> "answer", node |-> t.at, occ |-> t.occ, vars |-> pl,
                           kind |-> "", n |-> 0, pre |-> Cnt(s)])

XNext == XAnswer
XSpec == XInit /\ [][XNext]_<<s, h>>

Terminal == ReqToks(s) = {} \/ Len(h) >= MaxSteps

\* evaluated on every state: records maximal schedules, never prunes
Record ==
  Terminal =>
    TLCSet(1, Append(TLCGet(1),
       [prog |-> s.p - 1, steps |-> h,
        expect |-> IF s.ceased THEN "complete" ELSE IF ReqToks(s) = {} THEN "stuck" ELSE "open",
        final |-> Cnt(s)]))

Dump == ndJsonSerialize(OutFile, TLCGet(1))

(* invariants of the game checked over the macro-step graph *)
\* after a no-flow error (or a token stopped by exit / exhausted retries) the
\* rest of the instance may legitimately wait for ever
XNoDeadToken  == (ReqToks(s) = {} /\ Moves(s) = {} /\ Live(s) = Toks(s)) => Live(s) = {}
XCeaseIffDone == s.ceased <=> Complete(s)
XReqOnce      == RequestedOncePerToken
=============================================================================
