-------------------------- MODULE TokenGameExport --------------------------
(***************************************************************************)
(* Direction A: TLC enumerates the environment schedules of the token game *)
(* (macro steps: one environment action followed by the closure of all     *)
(* internal moves) for every program of the family, checks the game's own  *)
(* invariants on the way, and writes every maximal schedule as JSON.  The  *)
(* Go driver replays each schedule on the real engine; the recorded run is *)
(* then judged by TokenGameTrace.                                          *)
(*                                                                         *)
(* Each step carries `pre`: the cumulative observable counters of the game *)
(* state in which the action is taken, so the driver knows what to wait    *)
(* for before acting and never has to guess quiescence.                    *)
(***************************************************************************)
EXTENDS TokenGame

CONSTANTS OutFile, MaxSteps, Features, MaxRetry, MaxWaits, MaxDeliver

VARIABLES h

ASSUME TLCSet(1, <<>>)

Cnt(st) == [req |-> st.reqn, end |-> st.ended, err |-> st.errs, listen |-> st.lstn, arm |-> st.armn,
            cease |-> IF st.ceased THEN 1 ELSE 0]

XInit == \E i \in 1..NProg : s = CloseQuiet(Started(InitState(i))) /\ h = <<>>

\* which kinds of answers the environment may give to a request of task n
AnswerKinds(n) ==
  {<<"", 0>>} \cup
  (IF "err" \in Features /\ n.retries > 0
   THEN {<<"err", 0>>, <<"skip", 0>>, <<"exit", 0>>} \cup {<<"retry", r>> : r \in 0..MaxRetry}
   ELSE {})

\* feature "partial": an answer may carry only some of the declared result fields (the others
\* keep their values)
PayloadsX(i, n) ==
  IF "partial" \in Features /\ Len(n.writes) >= 2
  THEN UNION {{[w \in U |-> f[w]] : f \in Payloads(i, n)} : U \in (SUBSET SeqRange(n.writes)) \ {{}}}
  ELSE Payloads(i, n)

XAnswer ==
  /\ Len(h) < MaxSteps
  /\ (Len(h) > 0 => h[Len(h)].op # "deliverc")
  /\ \E t \in ReqToks(s) : \E pl \in PayloadsX(s.p, Node(s.p, t.at)) :
     \E kn \in AnswerKinds(Node(s.p, t.at)) :
        /\ s' = CloseQuiet(AnswerAny(s, t, pl, kn[1], kn[2]))
        /\ h' = Append(h, [op |-> "answer", node |-> t.at, occ |-> t.occ, vars |-> pl,
                           kind |-> kn[1], n |-> kn[2], cands |-> <<>>, evs |-> <<>>, pre |-> Cnt(s)])

\* the request of an activity that an interrupting boundary event has interrupted is answered
\* afterwards: must have no effect at all ("even if the task is answered afterwards")
XAnswerIntr ==
  /\ "deliver" \in Features
  /\ Len(h) < MaxSteps
  /\ (Len(h) > 0 => h[Len(h)].op # "deliverc")
  /\ \E r \in s.intr :
        /\ s' = [s EXCEPT !.intr = @ \ {r}]
        /\ h' = Append(h, [op |-> "answer", node |-> r[1], occ |-> r[2], vars |-> <<>>,
                           kind |-> "", n |-> 0, cands |-> <<>>, evs |-> <<>>, pre |-> Cnt(s)])

\* a further Do on the request answered last: must have no effect at all
XAgain ==
  /\ "again" \in Features
  /\ Len(h) < MaxSteps /\ Len(h) > 0 /\ h[Len(h)].op \in {"answer", "again"}
  \* up to three further calls on the same request
  /\ (Len(h) > 3 => ~(h[Len(h)].op = "again" /\ h[Len(h) - 1].op = "again" /\ h[Len(h) - 2].op = "again"))
  \* (with another payload, or carrying an error: neither may show)
  /\ \E pl \in Payloads(s.p, Node(s.p, h[Len(h)].node)), kd \in (IF "err" \in Features THEN {"", "err"} ELSE {""}) :
        /\ (h[Len(h)].op = "answer" /\ kd = "" => pl # h[Len(h)].vars)
        /\ h' = Append(h, [op |-> "again", node |-> h[Len(h)].node, occ |-> h[Len(h)].occ, vars |-> pl,
                           kind |-> kd, n |-> 0, cands |-> <<>>, evs |-> <<>>, pre |-> Cnt(s)])
  /\ UNCHANGED s

\* several first answers issued concurrently: exactly one takes effect.  The
\* candidates differ only in variables no condition reads, so the control
\* flow does not depend on the winner; which one won is decided by the trace
\* specification from the final store.
XAnswerC ==
  /\ "conc" \in Features
  /\ Len(h) < MaxSteps
  /\ \E t \in ReqToks(s) :
       LET P == Payloads(s.p, Node(s.p, t.at)) IN
       /\ Cardinality(P) >= 2
       /\ \E k \in 2..3 : k <= Cardinality(P) /\
            LET cs == SetToSeq(P) IN
            /\ s' = CloseQuiet(AnswerOK(s, t, cs[1]))
            /\ h' = Append(h, [op |-> "answerc", node |-> t.at, occ |-> t.occ, vars |-> cs[1],
                               kind |-> "", n |-> 0, cands |-> SubSeq(cs, 1, k), evs |-> <<>>, pre |-> Cnt(s)])

\* completion waits at arbitrary points: n is the time-out in milliseconds
NWaits == Cardinality({i \in DOMAIN h : h[i].op = "wait"})
XWait ==
  /\ "wait" \in Features
  /\ Len(h) < MaxSteps /\ NWaits < MaxWaits
  /\ \E ms \in (IF s.ceased THEN {2000} ELSE {1, 20}) : \E k \in 1..(IF "concwait" \in Features THEN 3 ELSE 1) :
        h' = Append(h, [op |-> "wait", node |-> "", occ |-> k, vars |-> <<>>,
                        kind |-> "", n |-> ms, cands |-> <<>>, evs |-> <<>>, pre |-> Cnt(s)])
  /\ UNCHANGED s

\* events the environment may deliver: every definition of the program plus
\* one that matches nothing
Alphabet(i) ==
  {<<"signal", "nomatch">>} \cup
  UNION {{<<Node(i, c).evs[j].k, Node(i, c).evs[j].ref>> : j \in DOMAIN Node(i, c).evs} : c \in CatchIds(i)}

NDeliver == Cardinality({i \in DOMAIN h : h[i].op \in {"deliver", "deliverc"}})
Step0 == [op |-> "", node |-> "", occ |-> 0, vars |-> <<>>, kind |-> "", n |-> 0, cands |-> <<>>, evs |-> <<>>]

\* one event delivered (the call returns before the next action)
XDeliver ==
  /\ "deliver" \in Features
  /\ Len(h) < MaxSteps /\ NDeliver < MaxDeliver
  /\ (Len(h) > 0 => h[Len(h)].op # "deliverc")
  /\ \E ev \in Alphabet(s.p) :
        /\ s' = CloseQuiet(Delivered(Deliver(s, ev[1], ev[2]), ev[1], ev[2]))
        /\ h' = Append(h, [Step0 EXCEPT !.op = "deliver", !.kind = ev[1], !.node = ev[2]] @@ [pre |-> Cnt(s)])

\* two or three different events delivered at the same time from different
\* goroutines; the outcome depends on the race, so this is the last scripted
\* step (the driver answers whatever is requested afterwards)
XDeliverC ==
  /\ "deliverc" \in Features
  /\ Len(h) < MaxSteps
  /\ (Len(h) > 0 => h[Len(h)].op # "deliverc")
  /\ \E E \in SUBSET Alphabet(s.p) : Cardinality(E) \in 2..3 /\
        LET q == SetToSeq(E) IN
        /\ s' = s
        /\ h' = Append(h, [Step0 EXCEPT !.op = "deliverc",
                              !.evs = [j \in DOMAIN q |-> [k |-> q[j][1], ref |-> q[j][2]]]] @@ [pre |-> Cnt(s)])

XNext == XAnswer \/ XAnswerIntr \/ XAgain \/ XAnswerC \/ XWait \/ XDeliver \/ XDeliverC
XSpec == XInit /\ [][XNext]_<<s, h>>

\* a schedule is maximal when nothing is left to answer (a wait-enabled export
\* additionally ends every schedule with the final long wait)
Terminal ==
  \/ Len(h) >= MaxSteps
  \/ (Len(h) > 0 /\ h[Len(h)].op = "deliverc")
  \/ /\ ReqToks(s) = {}
     /\ ("wait" \in Features /\ s.ceased) => (Len(h) > 0 /\ h[Len(h)].op = "wait" /\ h[Len(h)].n = 2000)
     \* with deliveries enabled a schedule ends when the instance has completed
     \* or the delivery budget is used up (prefixes are not recorded)
     /\ "deliver" \in Features => (s.ceased \/ NDeliver >= MaxDeliver)

\* evaluated on every state: records maximal schedules, never prunes
Record ==
  Terminal =>
    TLCSet(1, Append(TLCGet(1),
       [prog |-> s.p - 1, steps |-> h,
        expect |-> IF s.ceased THEN "complete" ELSE IF ReqToks(s) = {} THEN "stuck" ELSE "open",
        final |-> Cnt(s)]))

Dump == ndJsonSerialize(OutFile, TLCGet(1))

(* invariants of the game checked over the macro-step graph *)
\* after a no-flow error (or a token stopped by exit / exhausted retries) the
\* rest of the instance may legitimately wait for ever
XNoDeadToken  ==
  (/\ {t \in Toks(s) : t.st \in {"req", "listen", "arriving"}} = {}     \* nothing waits for the environment
   /\ Moves(s) = {} /\ Live(s) = Toks(s) /\ s.nkill = 0) => Live(s) = {}
XCeaseIffDone == s.ceased <=> Complete(s)
XReqOnce      == RequestedOncePerToken
=============================================================================
