------------------------------- MODULE IdGen -------------------------------
(***************************************************************************)
(* C20: identifier generation (pkg/id over muyo/sno, and the fallback      *)
(* generator).  An id is abstractly <<kind, partition-or-prefix, time,     *)
(* sequence>>.  The model is the design the library relies on:             *)
(*  - a sno generator owns a partition for life; within one time unit it   *)
(*    hands out increasing sequence numbers and, when the pool of the unit *)
(*    is used up, waits for the next unit; time never goes back;           *)
(*  - a snapshot captures (partition, time, sequence); a generator         *)
(*    restored from it continues strictly after that point;                *)
(*  - generators created in one program get different partitions;          *)
(*  - the fallback generator is a prefix fixed at creation plus a counter.  *)
(* Property: no identifier is ever issued twice (Distinct).                *)
(***************************************************************************)
EXTENDS Integers, Sequences, FiniteSets, TLC

CONSTANTS MaxGen,      \* number of generator slots
          SeqMax,      \* sequences 0..SeqMax per time unit (small, to force overflow waits)
          MaxTick,     \* time units 0..MaxTick
          MaxIds       \* bound on issued ids

VARIABLES tick,        \* global time unit
          gen,         \* gen[g] = [live, part, t, seq]  (seq = next sequence to hand out in unit t)
          nparts,      \* partitions handed out so far
          issued,      \* set of ids issued
          dup,         \* an id was issued twice (the property's negation)
          snaps        \* snapshots taken: set of [part, t, seq]

vars == <<tick, gen, nparts, issued, dup, snaps>>

Init == /\ tick = 0
        /\ gen = [g \in 1..MaxGen |-> [live |-> FALSE, part |-> 0, t |-> 0, seq |-> 0]]
        /\ nparts = 0 /\ issued = {} /\ dup = FALSE /\ snaps = {}

Tick == tick < MaxTick /\ tick' = tick + 1 /\ UNCHANGED <<gen, nparts, issued, dup, snaps>>

NewGenerator(g) ==
  /\ ~gen[g].live
  /\ nparts' = nparts + 1
  /\ gen' = [gen EXCEPT ![g] = [live |-> TRUE, part |-> nparts + 1, t |-> tick, seq |-> 0]]
  /\ UNCHANGED <<tick, issued, dup, snaps>>

\* one call of New on generator g (atomic w.r.t. other callers of g: the
\* library serialises them with atomics; callers of different generators interleave)
New(g) ==
  /\ gen[g].live /\ Cardinality(issued) < MaxIds
  /\ LET cur == gen[g]
         t1  == IF cur.t < tick THEN tick ELSE cur.t
         s1  == IF cur.t < tick THEN 0 ELSE cur.seq
     IN  /\ s1 <= SeqMax                 \* otherwise: sequence overflow, wait for the next unit
         /\ LET id == <<"sno", cur.part, t1, s1>> IN
            /\ dup' = (dup \/ id \in issued)
            /\ issued' = issued \cup {id}
         /\ gen' = [gen EXCEPT ![g] = [cur EXCEPT !.t = t1, !.seq = s1 + 1]]
  /\ UNCHANGED <<tick, nparts, snaps>>

Snapshot(g) ==
  /\ gen[g].live
  /\ snaps' = snaps \cup {[part |-> gen[g].part, t |-> gen[g].t, seq |-> gen[g].seq]}
  /\ UNCHANGED <<tick, gen, nparts, issued, dup>>

\* the snapshotted generator is retired and a generator restored from the snapshot takes over
Restore(g, g2) ==
  /\ gen[g].live /\ ~gen[g2].live /\ g # g2
  /\ \E sn \in snaps : sn.part = gen[g].part /\ sn.t = gen[g].t /\ sn.seq = gen[g].seq
  /\ gen' = [gen EXCEPT ![g] = [@ EXCEPT !.live = FALSE],
                        ![g2] = [live |-> TRUE, part |-> gen[g].part, t |-> gen[g].t, seq |-> gen[g].seq]]
  /\ UNCHANGED <<tick, nparts, issued, dup, snaps>>

Next == Tick \/ \E g \in 1..MaxGen : NewGenerator(g) \/ New(g) \/ Snapshot(g) \/ \E g2 \in 1..MaxGen : Restore(g, g2)
Spec == Init /\ [][Next]_vars

Distinct == ~dup
LivePartitionsDiffer == \A a, b \in 1..MaxGen : (a # b /\ gen[a].live /\ gen[b].live) => gen[a].part # gen[b].part
=============================================================================
