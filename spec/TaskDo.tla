------------------------------- MODULE TaskDo -------------------------------
(***************************************************************************)
(* C08 (level M): one task request -- activity.go taskTrace (Do, process)  *)
(* and the request goroutine of task_generic.go -- one action per critical *)
(* section, i.e. per stretch of code between two channel operations.       *)
(*                                                                         *)
(*   caller c  (TaskTrace.Do)                                              *)
(*     DoCheck    select { case <-t.done: return ; default: }              *)
(*     DoSend     select { case t.forward <- rsp: ; case <-t.done: }       *)
(*                (GuardedSend = FALSE is the pinned code: a bare          *)
(*                 `t.forward <- rsp`)                                     *)
(*   process goroutine (taskTrace.process, started by Build)               *)
(*     ProcTake   select { <-t.done | <-ctx.Done | <-timeout | <-forward } *)
(*                then t.response <- rsp   (capacity 1, nobody else sends) *)
(*     ProcClose  select { case <-t.done: default: close(t.done) }         *)
(*   request goroutine (genericTask.run, go func())                        *)
(*     JobTake    select { <-ctx.Done: return | out := <-at.out(): apply } *)
(*   environment                                                           *)
(*     Cancel     the instance's context is cancelled                      *)
(*     Timeout    the task's time-out elapses                              *)
(*                                                                         *)
(* forward has capacity 1.  Callers carry distinct payloads (their name).  *)
(*                                                                         *)
(* Properties (the level-P move they refine is TokenGame's answer /        *)
(* concurrent-answer move: exactly one candidate is effective, every call  *)
(* returns):                                                               *)
(*   AtMostOneEffective   the request goroutine applies at most one answer *)
(*   EffectiveIsACaller   ... and it is the payload of a caller that sent, *)
(*                        or the cancel / time-out error                   *)
(*   FirstSenderWins      the effective payload is the FIRST one put into  *)
(*                        forward ("the first Do call decides the outcome")*)
(*   NoStuckCaller        no reachable state in which a caller can never   *)
(*                        return: checked as absence of deadlock before    *)
(*                        AllReturned, and as the liveness CallersReturn   *)
(*                        under weak fairness                              *)
(* With GuardedSend = FALSE and three callers TLC finds the stuck caller   *)
(* (finding F9: two callers pass DoCheck, the first fills forward, the     *)
(* process goroutine takes it and closes done, the second fills forward    *)
(* again, a third that had passed DoCheck blocks for ever).                *)
(***************************************************************************)
EXTENDS Integers, Sequences, FiniteSets, TLC

CONSTANTS Callers,       \* Do calls on this one request
          GuardedSend,   \* TRUE: the code as it is now
          MayCancel, MayTimeout

VARIABLES cpc,      \* cpc[c]: "idle" | "checked" | "returned"
          forward,  \* sequence over payloads, capacity 1
          response, \* sequence over payloads, capacity 1
          done,     \* t.done closed
          ppc,      \* process goroutine: "select" | "close" | "exit"
          jpc,      \* request goroutine: "select" | "applied" | "gone"
          eff,      \* the payload the request goroutine applied (<<>> none)
          first,    \* the first payload ever put into forward (<<>> none)
          ctx, tmo  \* context cancelled / time-out elapsed
vars == <<cpc, forward, response, done, ppc, jpc, eff, first, ctx, tmo>>

Init == /\ cpc = [c \in Callers |-> "idle"] /\ forward = <<>> /\ response = <<>>
        /\ done = FALSE /\ ppc = "select" /\ jpc = "select" /\ eff = <<>> /\ first = <<>>
        /\ ctx = FALSE /\ tmo = FALSE

DoCheck(c) ==
  /\ cpc[c] = "idle"
  /\ cpc' = [cpc EXCEPT ![c] = IF done THEN "returned" ELSE "checked"]
  /\ UNCHANGED <<forward, response, done, ppc, jpc, eff, first, ctx, tmo>>

DoSend(c) ==
  /\ cpc[c] = "checked"
  /\ \/ /\ Len(forward) = 0
        /\ forward' = <<c>>
        /\ first' = IF first = <<>> THEN <<c>> ELSE first
        /\ cpc' = [cpc EXCEPT ![c] = "returned"]
     \/ /\ GuardedSend /\ done
        /\ cpc' = [cpc EXCEPT ![c] = "returned"]
        /\ UNCHANGED <<forward, first>>
  /\ UNCHANGED <<response, done, ppc, jpc, eff, ctx, tmo>>

ProcTake ==
  /\ ppc = "select"
  /\ \/ /\ Len(forward) > 0
        /\ response' = Append(response, forward[1]) /\ forward' = <<>>
     \/ /\ ctx /\ response' = Append(response, "ctx-error") /\ UNCHANGED forward
     \/ /\ tmo /\ ~ctx /\ response' = Append(response, "timeout-error") /\ UNCHANGED forward
  /\ ppc' = "close"
  /\ UNCHANGED <<cpc, done, jpc, eff, first, ctx, tmo>>

ProcClose ==
  /\ ppc = "close" /\ ppc' = "exit" /\ done' = TRUE
  /\ UNCHANGED <<cpc, forward, response, jpc, eff, first, ctx, tmo>>

JobTake ==
  /\ jpc = "select"
  /\ \/ /\ Len(response) > 0 /\ eff' = <<response[1]>> /\ response' = <<>> /\ jpc' = "applied"
     \/ /\ ctx /\ jpc' = "gone" /\ UNCHANGED <<eff, response>>
  /\ UNCHANGED <<cpc, forward, done, ppc, first, ctx, tmo>>

Cancel  == /\ MayCancel /\ ~ctx /\ ctx' = TRUE
           /\ UNCHANGED <<cpc, forward, response, done, ppc, jpc, eff, first, tmo>>
Timeout == /\ MayTimeout /\ ~tmo /\ tmo' = TRUE
           /\ UNCHANGED <<cpc, forward, response, done, ppc, jpc, eff, first, ctx>>

AllReturned == \A c \in Callers : cpc[c] = "returned"
\* (the environment stops calling; stutter at the end so that "deadlock" means a stuck goroutine)
Finished == AllReturned /\ UNCHANGED vars

Next == \/ \E c \in Callers : DoCheck(c) \/ DoSend(c)
        \/ ProcTake \/ ProcClose \/ JobTake \/ Cancel \/ Timeout \/ Finished

Spec == Init /\ [][Next]_vars
        /\ \A c \in Callers : WF_vars(DoCheck(c)) /\ WF_vars(DoSend(c))
        /\ WF_vars(ProcTake) /\ WF_vars(ProcClose) /\ WF_vars(JobTake)

TypeOK == /\ Len(forward) <= 1 /\ Len(response) <= 1
          /\ ppc \in {"select", "close", "exit"} /\ jpc \in {"select", "applied", "gone"}

AtMostOneEffective == [][eff # <<>> => eff' = eff]_vars
EffectiveIsACaller == eff # <<>> => eff[1] \in Callers \cup {"ctx-error", "timeout-error"}
FirstSenderWins    == (eff # <<>> /\ eff[1] \in Callers) => eff = first
\* the response channel never overflows: only the process goroutine sends, once
OneResponse        == ppc = "exit" => Len(response) <= 1

\* no caller is ever stuck: in every state where a caller has not returned, something the
\* caller depends on can still move (deadlock check), and under fairness all return
CallersReturn == <>AllReturned
\* a caller that has passed the check and faces a full forward channel must still have a
\* way out once the process goroutine has exited
NoStuckCaller == \A c \in Callers : (cpc[c] = "checked" /\ ppc = "exit") => (Len(forward) = 0 \/ (GuardedSend /\ done))
=============================================================================
