-------------------------- MODULE TokenGameTrace --------------------------
(***************************************************************************)
(* Direction B: recorded executions of the real engine are validated       *)
(* against TokenGame.  The log (ndjson, one record per line, many runs     *)
(* concatenated; an "init" record starts a run) contains the driver's own  *)
(* calls and the engine's observable traces in one total order.  Every     *)
(* logged record must be explained by exactly the matching move of the     *)
(* game; moves without an observable (tau: gateways, leaving nodes) are    *)
(* applied eagerly after each record, which is sound for the data-race-    *)
(* free programs the generators produce (tau moves only read the store and *)
(* commute).  A run whose record cannot be explained is marked failed      *)
(* (ok = FALSE) and skipped to the next "init"; TLC registers collect the  *)
(* accepted runs and every failure point, and the post-condition writes    *)
(* them out for the harness.                                               *)
(***************************************************************************)
EXTENDS TokenGame

CONSTANTS TraceFile, OutFile

Log == ndJsonDeserialize(TraceFile)

VARIABLES l, ok

ASSUME TLCSet(1, {}) /\ TLCSet(2, {})

Matching(st, lab) == {CloseTau(m.s) : m \in {m \in ObsMoves(st) : m.lab = lab}}

\* exactly the declared results were stored: same names, same values
VarsAgree(st, e) ==
  /\ DOMAIN e.vars = DOMAIN st.vars
  /\ \A v \in DOMAIN st.vars : e.vars[v] = st.vars[v]

\* at the end of a run the engine must have produced every observable the
\* game enables, report completion iff the game is complete, hold exactly
\* the pending requests of the game and the game's variable store
FinOK(st, e) ==
  \* (a delivery that raced with a token's arrival may have been dropped)
  /\ {m \in ObsMoves(st) : m.lab.ev # "cease" /\ ~(m.lab.ev = "observed" /\ m.lab.occ = 1)} = {}
  \* with nothing left for the environment to do, a merely allowed move must
  \* have happened as well
  /\ ReqToks(st) = {} => MayMoves(st) = {}
  \* (requests interrupted by a boundary event stay unanswered unless the driver answers them)
  /\ e.n = Cardinality(ReqToks(st)) + Cardinality(st.intr)
  /\ VarsAgree(st, e)
  /\ IF st.ceased THEN e.ok ELSE (~e.ok /\ ~Complete(st))

\* a completion wait issued in the middle of a run
WaitOK(st, e) ==
  IF e.ok THEN Complete(st) /\ e.n = 0
  ELSE ~st.ceased

\* tokens left at a gateway after a no-flow error may or may not be dropped
\* by an implementation: the property leaves it open
DropErr(st) == [st EXCEPT !.tok = [t \in {u \in DOMAIN @ : u.st \notin {"err", "dead"}} |-> @[t]]]

\* An event whose delivery had RETURNED while the host was waiting reached the boundary event
\* "while the activity waits for its answer", whatever the order in which the boundary event's
\* own goroutine and a later answer are then scheduled: before an answer is applied, such
\* deliveries are worked off (their "observed" record, which comes later, then finds nothing
\* left to explain and is skipped).
RECURSIVE FlushBoundary(_, _)
FlushBoundary(st, host) ==
  LET P == {<<c, j>> \in UNION {{<<c, j>> : j \in Processable(st, c)} : c \in BoundariesOf(st.p, host)} :
               Listeners(st, c) # {} /\ st.inbox[c][j].done /\ ~st.inbox[c][j].racy}
  IN  IF P = {} THEN st
      ELSE LET x  == CHOOSE x \in P : TRUE
               en == st.inbox[x[1]][x[2]]
               s1 == CloseTau(ObserveMove(st, x[1], x[2]).s)
           IN  FlushBoundary([s1 EXCEPT !.flushed = Append(@, <<x[1], en.k, en.ref>>)], host)

StepSet0(st0, e) ==
  LET st == IF e.ev \in {"ans", "ansc"} THEN FlushBoundary(st0, e.node) ELSE st0 IN
  CASE e.ev = "started" -> IF e.ok THEN {st} ELSE {}
    [] e.ev = "req"     -> Matching(st, Lab("req", e.node, e.occ))
    [] e.ev = "end"     -> Matching(st, Lab("end", e.node, 0))
    [] e.ev = "error"   -> IF e.kind = "noflow" THEN Matching(st, Lab("error", e.node, 0))
                           ELSE IF e.kind = "taskexec" THEN Matching(st, Lab("taskerr", e.node, 0))
                           ELSE {}
    [] e.ev = "cease"   -> Matching(st, Lab("cease", "", 0)) \cup Matching(DropErr(st), Lab("cease", "", 0))
    [] e.ev = "ans"     ->
         IF <<e.node, e.occ>> \in st.intr      \* interrupted request: no effect
         THEN {[st EXCEPT !.intr = @ \ {<<e.node, e.occ>>}]}
         ELSE {CloseTau(AnswerAny(st, t, e.vars, e.kind, e.n)) : t \in {t \in ReqToks(st) : t.at = e.node /\ t.occ = e.occ}}
    \* a candidate payload of a set of concurrently issued first answers
    [] e.ev = "cand"    ->
         {[st EXCEPT !.tok = AddToks(DelTok(@, t), {[t EXCEPT !.cands = @ \cup {e.vars}]})]
            : t \in {t \in ReqToks(st) : t.at = e.node /\ t.occ = e.occ}}
    \* the concurrent answers are issued: exactly one of them takes effect
    [] e.ev = "ansc"    ->
         UNION {{CloseTau(AnswerOK(st, t, pl)) : pl \in t.cands}
                  : t \in {t \in ReqToks(st) : t.at = e.node /\ t.occ = e.occ}}
    \* a further answer to an already answered request: no effect whatsoever
    [] e.ev = "again"   ->
         IF /\ e.node \in DOMAIN st.reqn /\ e.occ <= st.reqn[e.node]
            /\ ~\E t \in ReqToks(st) : t.at = e.node /\ t.occ = e.occ
         THEN {st} ELSE {}
    [] e.ev = "visit"   -> Matching(st, Lab("visit", e.node, 0))
                           \cup (IF <<e.node, "flow">> \in st.ghost
                                 THEN {[st EXCEPT !.ghost = (@ \ {<<e.node, "flow">>}) \cup {<<e.node, "arriving">>}]} ELSE {})
    [] e.ev = "listening" ->
         IF Node(st.p, e.node).kind = "boundary"
         THEN {CloseTau([st EXCEPT !.lstn[e.node] = 1])}   \* armed with (or just before) the host's first activation
         ELSE Matching(st, Lab("listening", e.node, 0))
              \* (a withdrawn alternative arming its catch event on the way out: the node stays armed)
              \cup (IF <<e.node, "arriving">> \in st.ghost /\ Listeners(st, e.node) = {} /\ e.node \notin st.stale
                    THEN {[st EXCEPT !.ghost = @ \ {<<e.node, "arriving">>}, !.stale = @ \cup {e.node}]} ELSE {})
    [] e.ev = "deliver"   -> {CloseTau(Deliver(st, e.kind, e.node))}
    [] e.ev = "deliverx"  -> {CloseTau(DeliverRacy(st, e.kind, e.node))}
    [] e.ev = "delivered" -> {CloseTau(Delivered(st, e.kind, e.node))}
    \* an observation at a node where the game has no listener is not an effect
    \* on the instance (e.g. a withdrawn alternative still reporting): ignored
    [] e.ev = "observed"  ->
         LET key == <<e.node, e.kind, e.flows[1]>>
             F   == {j \in DOMAIN st.flushed : st.flushed[j] = key}
             \* the record of a delivery that was worked off already when an answer overtook it
             late == IF F = {} THEN {} ELSE {[st EXCEPT !.flushed = RemoveAt(@, Min(F))]}
         IN
         IF e.node \in DOMAIN st.inbox /\ Armed(st, e.node)
         THEN {CloseTau(m.s) : m \in {m \in ObsMoves(st) :
                  m.lab.ev = "observed" /\ m.lab.node = e.node /\ m.lab.arg = <<e.kind, e.flows[1]>>}} \cup late
         ELSE {st} \cup late
    [] e.ev = "determination" -> Matching(st, Lab("determination", e.node, 0))
    [] e.ev = "wait"    -> IF WaitOK(st, e) THEN {st} ELSE {}
    [] e.ev = "fin"     -> IF FinOK(st, e) THEN {st} ELSE {}
    [] e.ev = "timeout" -> {st}
    \* C15: the instance runs on the model obtained by serialising and re-parsing; the
    \* harness compared the two models (elements, ids, references, attributes, expressions
    \* and their formal / informal kind, event definitions, extensions; FindBy on every id)
    [] e.ev = "roundtrip" -> IF e.ok THEN {st} ELSE {}
    [] OTHER -> {}

(* C07: after the context has been cancelled the instance winds down.  What  *)
(* the property demands of everything observed from then on:                 *)
(*   - a task request may still come through only if it carries the already  *)
(*     cancelled context (req.ok = FALSE);                                   *)
(*   - WaitUntilComplete returns promptly (latency e.n in ms);               *)
(*   - the tracers terminate, the subscriber channel is closed;              *)
(*   - the census of goroutines the instance started is empty;               *)
(*   - events handed to the instance afterwards are dropped: the call returns*)
PromptMs == 2000
PostCancel(st, e) ==
  CASE e.ev = "req"        -> IF e.ok THEN {} ELSE {st}
    [] e.ev = "waitret"    -> IF e.n <= PromptMs THEN {st} ELSE {}
    [] e.ev = "tracerdone" -> IF e.ok THEN {st} ELSE {}
    [] e.ev = "subclosed"  -> IF e.ok THEN {st} ELSE {}
    [] e.ev = "census"     -> IF e.n = 0 THEN {st} ELSE {}
    \* C11 / C07: handing an event to the cancelled instance returns (e.n of 6 deliveries did)
    [] e.ev = "postdeliver" -> IF e.ok THEN {st} ELSE {}
    [] e.ev = "blocked"    -> {}
    \* C02: the cease trace stands for "every token has been consumed": when the context
    \* is cancelled while the instance is parked at unanswered requests (the completion
    \* monitor blocked in its wait), no cease trace may follow
    [] e.ev = "cease"      -> IF st.parked /\ ReqToks(st) # {} THEN {} ELSE {st}
    [] OTHER -> {st}

StepSet(st, e) ==
  IF st.cancelled THEN PostCancel(st, e)
  ELSE IF e.ev = "cancel" THEN {[st EXCEPT !.cancelled = TRUE, !.parked = (e.kind = "parked")]}
  ELSE UNION {StepSet0(x, e) : x \in Expand(st)}

TraceInit == l = 1 /\ ok = FALSE /\ s = InitState(1)

TraceNext ==
  /\ l <= Len(Log)
  /\ l' = l + 1
  /\ LET e == Log[l] IN
     IF e.ev = "init"
     THEN /\ s' = CloseTau(Started([InitState(e.n + 1) EXCEPT !.asis = e.ok]))
          /\ ok' = TRUE
     ELSE IF ~ok
     THEN UNCHANGED <<s, ok>>
     ELSE LET S == StepSet(s, e) IN
          IF S = {}
          THEN /\ ok' = FALSE /\ s' = s
               /\ TLCSet(2, TLCGet(2) \cup {<<e.run, l, e.ev, e.node>>})
          ELSE /\ s' \in S /\ ok' = TRUE
               /\ (e.ev = "fin" => TLCSet(1, TLCGet(1) \cup {e.run}))

TraceSpec == TraceInit /\ [][TraceNext]_<<s, l, ok>>

\* the post-condition never fails: it reports
Report ==
  JsonSerialize(OutFile, [accepted |-> SetToSeq(TLCGet(1)),
                          failures |-> SetToSeq(TLCGet(2)),
                          len      |-> Len(Log)])
=============================================================================
