------------------------------- MODULE Tracer -------------------------------
(***************************************************************************)
(* C09 (level M): pkg/tracing/tracer.go, one action per critical section.  *)
(*                                                                         *)
(* tracer goroutine: select { subscription | unSubscription | trace |      *)
(*   ctx.Done | terminate }; a trace is delivered to the subscribers one   *)
(*   after the other in list order, each delivery a (possibly blocking)    *)
(*   channel send; unsubscription removes by swap-with-last.               *)
(* senders: Send is a rendezvous on the unbuffered traces channel.         *)
(* subscribers: SubscribeChannel (rendezvous + ok), a consumer that        *)
(*   receives from its buffered channel at its own speed, Unsubscribe      *)
(*   (loop: drain own channel | offer unSubscription | wait ok | done).    *)
(* termination: after ctx is cancelled and every registered sender is      *)
(*   done, the tracer closes every subscriber channel and its done channel.*)
(***************************************************************************)
EXTENDS Integers, Sequences, FiniteSets, TLC, SequencesExt

CONSTANTS Senders,      \* set of sender ids
          NMsg,         \* traces per sender
          Subs,         \* set of subscriber ids
          Cap           \* Cap[s]: buffer capacity of subscriber s's channel

VARIABLES
  spc,      \* spc[p]  : number of traces sender p has handed over (0..NMsg); "done" flag derived
  sdone,    \* sdone[p]: sender p called its handle's Done
  tpc,      \* tracer: "select" | "deliver" | "ackunsub" | "closing" | "exited"
  cur,      \* trace being delivered, index of the next subscriber in `list`
  list,     \* tracer's subscriber list (sequence of subscriber ids)
  buf,      \* buf[s]: contents of subscriber s's channel
  closed,   \* closed[s]: how many times the channel was closed
  cpc,      \* client state of subscriber s: "out" | "subscribing" | "in" | "unsubscribing" | "waitok" | "gone"
  got,      \* got[s]: what the consumer of s has received
  order,    \* the global order: traces in the order the tracer took them
  first,    \* first[s]: Len(order) when the subscription of s took effect
  lastp,    \* lastp[s]: Len(order) when the unsubscription of s took effect (-1: still subscribed)
  ctx,      \* context cancelled
  ackfor    \* subscriber whose unsubscription is being acknowledged

vars == <<spc, sdone, tpc, cur, list, buf, closed, cpc, got, order, first, lastp, ctx, ackfor>>

Msg(p, k) == <<p, k>>

Init ==
  /\ spc = [p \in Senders |-> 0] /\ sdone = [p \in Senders |-> FALSE]
  /\ tpc = "select" /\ cur = [m |-> <<>>, i |-> 0] /\ list = <<>>
  /\ buf = [s \in Subs |-> <<>>] /\ closed = [s \in Subs |-> 0]
  /\ cpc = [s \in Subs |-> "out"] /\ got = [s \in Subs |-> <<>>]
  /\ order = <<>> /\ first = [s \in Subs |-> -1] /\ lastp = [s \in Subs |-> -1]
  /\ ctx = FALSE /\ ackfor = CHOOSE s \in Subs : TRUE

(* ---- senders ---- *)
\* Send: rendezvous with the tracer's select
Send(p) ==
  /\ spc[p] < NMsg /\ tpc = "select"
  /\ spc' = [spc EXCEPT ![p] = @ + 1]
  /\ order' = Append(order, Msg(p, spc[p] + 1))
  /\ cur' = [m |-> Msg(p, spc[p] + 1), i |-> 1]
  /\ tpc' = "deliver"
  /\ UNCHANGED <<sdone, list, buf, closed, cpc, got, first, lastp, ctx, ackfor>>

SenderDone(p) ==
  /\ spc[p] = NMsg /\ ~sdone[p]
  /\ sdone' = [sdone EXCEPT ![p] = TRUE]
  /\ UNCHANGED <<spc, tpc, cur, list, buf, closed, cpc, got, order, first, lastp, ctx, ackfor>>

(* ---- tracer: delivering the current trace ---- *)
Deliver ==
  /\ tpc = "deliver"
  /\ IF cur.i > Len(list)
     THEN /\ tpc' = "select" /\ UNCHANGED <<buf, got, cur>>
     ELSE LET s == list[cur.i] IN
          \* channel send: needs room in the buffer, or (capacity 0) a consumer
          \* ready to receive -- a consumer is always willing to receive
          /\ \/ /\ Cap[s] > 0 /\ Len(buf[s]) < Cap[s]
                /\ buf' = [buf EXCEPT ![s] = Append(@, cur.m)] /\ UNCHANGED got
             \/ /\ Cap[s] = 0 /\ cpc[s] \in {"in", "unsubscribing", "waitok"}
                \* received directly by the consumer, or swallowed by Unsubscribe's drain
                /\ IF cpc[s] = "in" THEN got' = [got EXCEPT ![s] = Append(@, cur.m)] ELSE UNCHANGED got
                /\ UNCHANGED buf
          /\ cur' = [cur EXCEPT !.i = @ + 1]
          /\ UNCHANGED tpc
  /\ UNCHANGED <<spc, sdone, list, closed, cpc, order, first, lastp, ctx, ackfor>>

(* ---- subscribers ---- *)
SubscribeStart(s) ==
  /\ cpc[s] = "out" /\ tpc = "select"       \* rendezvous on t.subscription
  /\ list' = Append(list, s)
  /\ first' = [first EXCEPT ![s] = Len(order)]
  /\ cpc' = [cpc EXCEPT ![s] = "in"]        \* ok channel is buffered: the client returns
  /\ UNCHANGED <<spc, sdone, tpc, cur, buf, closed, got, order, lastp, ctx, ackfor>>

Consume(s) ==
  /\ cpc[s] = "in" /\ buf[s] # <<>>
  /\ got' = [got EXCEPT ![s] = Append(@, Head(buf[s]))]
  /\ buf' = [buf EXCEPT ![s] = Tail(@)]
  /\ UNCHANGED <<spc, sdone, tpc, cur, list, closed, cpc, order, first, lastp, ctx, ackfor>>

UnsubscribeBegin(s) ==
  /\ cpc[s] = "in"
  /\ cpc' = [cpc EXCEPT ![s] = "unsubscribing"]
  /\ UNCHANGED <<spc, sdone, tpc, cur, list, buf, closed, got, order, first, lastp, ctx, ackfor>>

\* the Unsubscribe loop drains the subscriber's own channel
UnsubDrain(s) ==
  /\ cpc[s] \in {"unsubscribing", "waitok"} /\ buf[s] # <<>>
  /\ buf' = [buf EXCEPT ![s] = Tail(@)]
  /\ UNCHANGED <<spc, sdone, tpc, cur, list, closed, cpc, got, order, first, lastp, ctx, ackfor>>

\* ... offers the unSubscription: rendezvous with the tracer's select; the
\* tracer removes the subscriber (swap with last) and goes to acknowledge
UnsubOffer(s) ==
  /\ cpc[s] = "unsubscribing" /\ tpc = "select"
  /\ LET pos == CHOOSE i \in DOMAIN list : list[i] = s
         l   == Len(list)
     IN  list' = SubSeq([list EXCEPT ![pos] = list[l]], 1, l - 1)
  /\ lastp' = [lastp EXCEPT ![s] = Len(order)]
  /\ tpc' = "ackunsub" /\ ackfor' = s
  /\ cpc' = [cpc EXCEPT ![s] = "waitok"]
  /\ UNCHANGED <<spc, sdone, cur, buf, closed, got, order, first, ctx>>

\* the ok channel is unbuffered: tracer and client meet
UnsubAck ==
  /\ tpc = "ackunsub" /\ cpc[ackfor] = "waitok"
  /\ tpc' = "select"
  /\ cpc' = [cpc EXCEPT ![ackfor] = "gone"]
  /\ UNCHANGED <<spc, sdone, cur, list, buf, closed, got, order, first, lastp, ctx, ackfor>>

(* ---- termination ---- *)
Cancel == /\ ~ctx /\ ctx' = TRUE
          /\ UNCHANGED <<spc, sdone, tpc, cur, list, buf, closed, cpc, got, order, first, lastp, ackfor>>

\* all registered senders done: the termination message reaches the select
Terminate ==
  /\ ctx /\ tpc = "select" /\ \A p \in Senders : sdone[p]
  /\ closed' = [s \in Subs |-> IF \E i \in DOMAIN list : list[i] = s THEN closed[s] + 1 ELSE closed[s]]
  /\ tpc' = "exited"
  /\ UNCHANGED <<spc, sdone, cur, list, buf, cpc, got, order, first, lastp, ctx, ackfor>>

\* Unsubscribe returns when the tracer is done
UnsubAfterExit(s) ==
  /\ cpc[s] \in {"unsubscribing", "waitok"} /\ tpc = "exited"
  /\ cpc' = [cpc EXCEPT ![s] = "gone"]
  /\ UNCHANGED <<spc, sdone, tpc, cur, list, buf, closed, got, order, first, lastp, ctx, ackfor>>

Finished == tpc = "exited" /\ \A s \in Subs : cpc[s] \in {"out", "gone"} \/ (cpc[s] = "in" /\ buf[s] = <<>>)
Idle == Finished /\ UNCHANGED vars

Next ==
  \/ \E p \in Senders : Send(p) \/ SenderDone(p)
  \/ Deliver
  \/ \E s \in Subs : SubscribeStart(s) \/ Consume(s) \/ UnsubscribeBegin(s) \/ UnsubDrain(s) \/ UnsubOffer(s) \/ UnsubAfterExit(s)
  \/ UnsubAck \/ Cancel \/ Terminate \/ Idle

Spec == Init /\ [][Next]_vars /\ WF_vars(Next)

(* ------------------------------ properties ------------------------------ *)
\* what subscriber s has been handed so far is a contiguous slice of the one
\* global order starting where its subscription took effect: nothing dropped,
\* duplicated or reordered
Contiguous ==
  \A s \in Subs :
    first[s] >= 0 =>
      LET handed == got[s] \o buf[s]
      IN  \/ cpc[s] \in {"unsubscribing", "waitok", "gone"}   \* drained by Unsubscribe: no claim
          \/ handed = SubSeq(order, first[s] + 1, first[s] + Len(handed))

\* while subscribed, a subscriber misses nothing: whatever was taken and fully
\* delivered is in its hands
NothingMissed ==
  \A s \in Subs :
    (cpc[s] = "in" /\ tpc = "select") => Len(got[s]) + Len(buf[s]) = Len(order) - first[s]

\* the global order respects every sender's program order
SenderOrder ==
  \A i, j \in DOMAIN order : (i < j /\ order[i][1] = order[j][1]) => order[i][2] < order[j][2]

ClosedAtMostOnce == \A s \in Subs : closed[s] <= 1
\* after termination every channel still subscribed has been closed exactly once
ClosedOnExit == tpc = "exited" => \A s \in Subs : (\E i \in DOMAIN list : list[i] = s) => closed[s] = 1

\* liveness: everything sent is eventually in the hands of everyone who stays
\* subscribed, the system never gets stuck (deadlock is checked separately)
EventuallyQuiet == <>[](tpc \in {"select", "exited"})
=============================================================================
