------------------------------ MODULE Builder ------------------------------
(***************************************************************************)
(* C19: schema.ProcessBuilder / DefinitionBuilder / AutoLayout.            *)
(* A build is a sequence of processes, each a sequence of AddActivity      *)
(* calls [type, preset] (preset: the caller set the activity's id).  The   *)
(* specification gives the model every such build must produce:            *)
(*   nodes  : start, the activities in call order, end                     *)
(*   flows  : a chain; flow k goes from node k to node k+1 and is listed   *)
(*            as the only outgoing of k and the only incoming of k+1       *)
(*   layout : node k of process p sits in column k, row 0:                 *)
(*            x = StartX + k*ColumnGap, y = Y(p) - height/2, with the      *)
(*            default size of its type; Y(1) = StartY,                     *)
(*            Y(p+1) = Y(p) + max(tallest node of p / 2, 160) + ProcessGap;*)
(*            one edge per flow from the middle of the source's right side *)
(*            to the middle of the target's left side.                     *)
(* TLC checks well-formedness and the no-overlap claim (conditional on the *)
(* gaps) on every build of the bounded family and exports each build with  *)
(* its expected layout; the Go side replays the calls on the real builders.*)
(***************************************************************************)
EXTENDS Integers, Sequences, FiniteSets, TLC, Json, SequencesExt

CONSTANTS OutFile, MaxActs, MaxProcs, MaxEarly, Configs,   \* Configs: set of [sx, sy, cg, rg, pg]
          TypeSet, PresetSet                       \* activity types / preset-id choices of this configuration

Types == {"task", "serviceTask", "userTask", "scriptTask", "manualTask", "sendTask", "receiveTask",
          "businessRuleTask", "callActivity", "subProcess"}
W(t) == IF t \in {"start", "end"} THEN 36 ELSE IF t = "subProcess" THEN 120 ELSE 100
H(t) == IF t \in {"start", "end"} THEN 36 ELSE IF t = "subProcess" THEN 100 ELSE 80

VARIABLES procs,    \* sequence of finished processes, each a sequence of [type, preset]
          cur,      \* activities added to the process under construction
          cfg,      \* layout configuration (of the LAST AutoLayout call, made before Out)
          early,    \* AutoLayout calls made earlier on the same definitions builder:
                    \* sequence of [n |-> processes added so far, c |-> configuration]
          reuse     \* one ProcessBuilder is used for all processes (Out starts the next one)
vars == <<procs, cur, cfg, early, reuse>>

ASSUME TypeSet \subseteq Types
Init == procs = <<>> /\ cur = <<>> /\ cfg \in Configs /\ early = <<>> /\ reuse \in BOOLEAN

AddActivity == /\ Len(cur) < MaxActs /\ Len(procs) < MaxProcs
               /\ \E t \in TypeSet, pre \in PresetSet : cur' = Append(cur, [type |-> t, preset |-> pre])
               /\ UNCHANGED <<procs, cfg, early, reuse>>
OutProcess == /\ Len(procs) < MaxProcs
              /\ procs' = Append(procs, cur) /\ cur' = <<>> /\ UNCHANGED <<cfg, early, reuse>>
\* the definitions builder is laid out now and (with whatever is added meanwhile) again later:
\* a layout REPLACES the diagram, so only the last call shows in the result
EarlyLayout == /\ cur = <<>> /\ Len(procs) >= 1 /\ Len(early) < MaxEarly
               /\ \E c \in Configs : early' = Append(early, [n |-> Len(procs), c |-> c])
               /\ UNCHANGED <<procs, cur, cfg, reuse>>
Next == AddActivity \/ OutProcess \/ EarlyLayout
Spec == Init /\ [][Next]_vars

(* ------------------------- the model of a build ------------------------- *)
NodeTypes(p) == <<"start">> \o [k \in DOMAIN p |-> p[k].type] \o <<"end">>
MaxOf(S) == CHOOSE x \in S : \A y \in S : y <= x
Tallest(p) == MaxOf({H(NodeTypes(p)[k]) : k \in DOMAIN NodeTypes(p)})
ProcHeight(p) == IF Tallest(p) \div 2 < 160 THEN 160 ELSE Tallest(p) \div 2

RECURSIVE YOf(_, _)
YOf(ps, i) == IF i = 1 THEN cfg.sy ELSE YOf(ps, i - 1) + ProcHeight(ps[i - 1]) + cfg.pg

Shape(ps, i, k) ==
  LET t == NodeTypes(ps[i])[k] IN
  [x |-> cfg.sx + (k - 1) * cfg.cg, y |-> YOf(ps, i) - H(t) \div 2, w |-> W(t), h |-> H(t)]

Shapes(ps) == {<<i, k>> : i \in DOMAIN ps, k \in 1..0} \cup UNION {{<<i, k>> : k \in DOMAIN NodeTypes(ps[i])} : i \in DOMAIN ps}

Overlap(a, b) == a.x < b.x + b.w /\ b.x < a.x + a.w /\ a.y < b.y + b.h /\ b.y < a.y + a.h

\* no two shapes overlap whenever the gaps are at least the node sizes
GapsOK == cfg.cg >= 120 /\ cfg.pg >= 120
NoOverlap ==
  GapsOK => \A a, b \in Shapes(procs) : a # b => ~Overlap(Shape(procs, a[1], a[2]), Shape(procs, b[1], b[2]))

\* every edge starts on its source shape and ends on its target shape
EdgesAttach ==
  \A i \in DOMAIN procs : \A k \in 1..(Len(NodeTypes(procs[i])) - 1) :
     LET s == Shape(procs, i, k)
         t == Shape(procs, i, k + 1)
     IN  s.y + s.h \div 2 = YOf(procs, i) /\ t.y + t.h \div 2 = YOf(procs, i)   \* a straight edge in the row's centre line

(* ------------------------------- export -------------------------------- *)
ASSUME TLCSet(1, <<>>)
Build(ps) ==
  [cfg |-> cfg,
   early |-> early,
   reuse |-> reuse,
   procs |-> [i \in DOMAIN ps |->
      [acts |-> ps[i],
       shapes |-> [k \in DOMAIN NodeTypes(ps[i]) |-> Shape(ps, i, k)]]]]
Record == (cur = <<>> /\ Len(procs) >= 1) => TLCSet(1, Append(TLCGet(1), Build(procs)))
Dump == ndJsonSerialize(OutFile, TLCGet(1))
=============================================================================
