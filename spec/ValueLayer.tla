----------------------------- MODULE ValueLayer -----------------------------
(***************************************************************************)
(* C16: the value layer (schema.Value, pkg/data locators).                 *)
(* Part A - the dispatch table: what storing a Go value of dynamic kind k  *)
(*   under an item declaration d must yield when read back:                *)
(*     [type (item type), class (canonical Go class), same (value equal)]  *)
(*   class: "int" int64 | "float" float64 | "bool" | "string" | "list"     *)
(*          []any | "dict" map[string]any | "empty" (nil or type-less)     *)
(*   For an undeclared item (d = "none") every supported kind is stored    *)
(*   with its matching item type.  For a declared type a compatible value  *)
(*   is stored as that type; an incompatible value must only not panic     *)
(*   (same = "any").  Nothing in the table may panic.                      *)
(* Part B - the store: variables of instances are isolated; Set / Get /    *)
(*   Clone behave like a map per instance.                                 *)
(* TLC checks the table for totality and the store for isolation, and      *)
(* exports both (rows / behaviours) for the Go side, which instantiates    *)
(* every abstract value with concrete boundary values.                     *)
(***************************************************************************)
EXTENDS Integers, Sequences, FiniteSets, TLC, Json, SequencesExt

CONSTANTS OutTable, OutBehaviours, MaxOps

Decls == {"none", "string", "integer", "boolean", "float", "array", "object"}
IntKinds   == {"int", "int8", "int16", "int32", "int64"}
UintKinds  == {"uint", "uint8", "uint16", "uint32", "uint64"}
FloatKinds == {"float32", "float64"}
Kinds == IntKinds \cup UintKinds \cup FloatKinds \cup
         {"nil", "bool", "string", "slice", "array", "map", "struct",
          "ptr_int", "ptr_struct", "ptr_slice", "ptr_nil", "nil_slice", "nil_map"}

Row(d, k, type, class, same) == [decl |-> d, kind |-> k, type |-> type, class |-> class, same |-> same]

Untyped(k) ==
  CASE k \in IntKinds \cup UintKinds \cup {"ptr_int"} -> Row("none", k, "integer", "int", "yes")
    [] k \in FloatKinds -> Row("none", k, "float", "float", "yes")
    [] k = "bool"   -> Row("none", k, "boolean", "bool", "yes")
    [] k = "string" -> Row("none", k, "string", "string", "yes")
    [] k \in {"slice", "array", "ptr_slice"} -> Row("none", k, "array", "list", "yes")
    [] k \in {"map", "struct", "ptr_struct"} -> Row("none", k, "object", "dict", "yes")
    \* nil of any shape: read back as "empty" (nil, or the zero value of a type-less item);
    \* the property does not pin its canonical form
    [] k \in {"nil", "ptr_nil"} -> Row("none", k, "any", "empty", "any")
    [] k = "nil_slice" -> Row("none", k, "array", "any", "any")
    [] k = "nil_map"   -> Row("none", k, "object", "any", "any")

Compatible(d, k) ==
  CASE d = "string"  -> k = "string"
    [] d = "integer" -> k \in IntKinds \cup UintKinds
    [] d = "boolean" -> k = "bool"
    [] d = "float"   -> k \in FloatKinds
    [] d = "array"   -> k \in {"slice", "array"}
    [] d = "object"  -> k \in {"map", "struct", "ptr_struct"}
    [] OTHER -> FALSE
ClassOf(d) == CASE d = "string" -> "string" [] d = "integer" -> "int" [] d = "boolean" -> "bool"
                [] d = "float" -> "float" [] d = "array" -> "list" [] d = "object" -> "dict"

Typed(d, k) == IF Compatible(d, k) THEN Row(d, k, d, ClassOf(d), "yes")
               ELSE Row(d, k, d, "any", "any")      \* must not panic; nothing else demanded

Table == {Untyped(k) : k \in Kinds} \cup {Typed(d, k) : d \in Decls \ {"none"}, k \in Kinds}

TableTotal == \A d \in Decls, k \in Kinds : Cardinality({r \in Table : r.decl = d /\ r.kind = k}) = 1

(* ------------------------------ the store ------------------------------- *)
Insts == {1, 2}
Names == {"a", "b"}
Vals  == {"v1", "v2"}          \* abstract values; the Go side draws a (kind, concrete value) for each

\* How the two instances come into being (the store must be per instance in every case):
\*   "separate"   : two NewProcess calls, each with its own options
\*   "shared"     : ONE option list -- WithVariables(a = v1) among them -- reused for both calls
\*   "shareditem" : the same, the start variable being a READY-MADE item (schema.NewValue(v1)):
\*                  both instances are handed the very same item
\* and how a value is handed to the store:
\*   "raw"  : SetVariable(name, Go value)       "item" : SetVariable(name, schema.NewValue(Go value))
\* Values are VALUES: an item handed in, a snapshot taken (CloneVariables) and the store of a
\* locator that was merged from are never changed by what is stored later anywhere else.
Modes == {"separate", "shared", "shareditem"}
Vias  == {"raw", "item"}
VARIABLES store, h, mode, snap
vars == <<store, h, mode, snap>>
Absent == "-"
NoSnap == [inst |-> 0, vals |-> [n \in Names |-> Absent]]
Init == /\ mode \in Modes
        /\ store = [i \in Insts |-> [n \in Names |-> IF mode # "separate" /\ n = "a" THEN "v1" ELSE Absent]]
        /\ h = <<>>
        /\ snap = NoSnap

Step(op, via, i, n, v) == [op |-> op, via |-> via, inst |-> i, name |-> n, val |-> v, expect |-> store', snap |-> snap']

SetOp(i, n, v, via) ==
  /\ store' = [store EXCEPT ![i][n] = v]
  /\ UNCHANGED <<mode, snap>>
  /\ h' = Append(h, Step("set", via, i, n, v))
GetOp(i, n) ==
  /\ UNCHANGED <<store, mode, snap>>
  /\ h' = Append(h, Step("get", "", i, n, store[i][n]))
\* CloneVariables of instance i is kept by the caller: a snapshot
SnapOp(i) ==
  /\ snap = NoSnap
  /\ snap' = [inst |-> i, vals |-> store[i]]
  /\ UNCHANGED <<store, mode>>
  /\ h' = Append(h, Step("snap", "", i, "", ""))
\* Locator(i).Merge(Locator(j)): i takes over j's variables, j is left alone
MergeOp(i, j) ==
  /\ i # j
  /\ store' = [store EXCEPT ![i] = [n \in Names |-> IF store[j][n] # Absent THEN store[j][n] ELSE @[n]]]
  /\ UNCHANGED <<mode, snap>>
  /\ h' = Append(h, Step("merge", "", i, "", ""))
Next == /\ Len(h) < MaxOps
        /\ \/ \E i \in Insts, n \in Names, v \in Vals, via \in Vias : SetOp(i, n, v, via)
           \/ \E i \in Insts, n \in Names : GetOp(i, n)
           \/ \E i \in Insts : SnapOp(i)
           \/ \E i, j \in Insts : MergeOp(i, j)
Spec == Init /\ [][Next]_vars

\* isolation: an operation on one instance never changes another instance's variables
Isolation == [][\A i \in Insts : (h' # h /\ h'[Len(h')].inst # i) => store'[i] = store[i]]_vars
\* a snapshot, once taken, is a value
SnapshotIsAValue == [][snap # NoSnap => snap' = snap]_vars

ASSUME TLCSet(1, <<>>)
Record == (Len(h) = MaxOps) => TLCSet(1, Append(TLCGet(1), [steps |-> h, mode |-> mode]))
Dump == /\ ndJsonSerialize(OutBehaviours, TLCGet(1))
        /\ ndJsonSerialize(OutTable, SetToSeq(Table))
=============================================================================
