------------------------------- MODULE Timer -------------------------------
(***************************************************************************)
(* C13: timers over a mock clock (pkg/timer/timer.go, pkg/clock/mock.go).  *)
(* Time is in whole seconds since the mock clock's origin.  A definition   *)
(* is a record read from JSON:                                             *)
(*   [kind |-> "date" | "duration" | "cycle", due, start, interval, n, end]*)
(*   date/duration: fires once when the clock reaches `due`;               *)
(*   cycle: waits for `start`, then fires when the clock reaches the last  *)
(*   reference time + interval, where the reference time is `start` at     *)
(*   first and afterwards the clock reading that caused the last firing    *)
(*   (firings are therefore at least one interval of clock time apart);    *)
(*   n = number of repetitions (-1 unbounded); never at or after `end`     *)
(*   (-1: no end bound).                                                   *)
(* The environment moves the clock forward along a grid and may cancel.    *)
(***************************************************************************)
EXTENDS Integers, Sequences, FiniteSets, TLC, Json, SequencesExt

CONSTANTS DefFile, OutFile, Grid, MaxAdv

Defs == JsonDeserialize(DefFile)

VARIABLES t, h
\* t: [d (definition index), now, phase, ref, rem, fired (sequence of clock readings at firing),
\*     cancelled, stale (a firing was already due when cancelled)]
vars == <<t, h>>

TInit(i) ==
  LET d == Defs[i] IN
  [d |-> i, now |-> 0,
   phase |-> IF d.kind = "cycle" THEN "waitstart" ELSE "armed",
   ref |-> IF d.kind = "cycle" THEN d.start ELSE 0,
   rem |-> IF d.kind = "cycle" THEN d.n ELSE 1,
   fired |-> <<>>, cancelled |-> FALSE, stale |-> FALSE]

Def(s) == Defs[s.d]
NextDue(s) == IF Def(s).kind = "cycle" THEN s.ref + Def(s).interval ELSE Def(s).due
PastEnd(s) == Def(s).kind = "cycle" /\ Def(s).end >= 0 /\ s.now >= Def(s).end

\* internal steps of the timer (each is one wake-up of its goroutine)
CanStart(s) == s.phase = "waitstart" /\ s.now >= Def(s).start
CanFire(s)  == s.phase = "armed" /\ s.rem # 0 /\ ~PastEnd(s) /\ s.now >= NextDue(s)
CanClose(s) == s.phase = "armed" /\ (s.rem = 0 \/ PastEnd(s))

StartOf(s) == [s EXCEPT !.phase = "armed"]
FireOf(s)  == [s EXCEPT !.fired = Append(@, s.now),
                        !.ref = s.now,
                        !.rem = IF @ > 0 THEN @ - 1 ELSE @,
                        !.phase = IF Def(s).kind # "cycle" THEN "closed" ELSE "armed"]
CloseOf(s) == [s EXCEPT !.phase = "closed"]

RECURSIVE Settle(_)
Settle(s) ==
  IF s.cancelled THEN s
  ELSE IF CanStart(s) THEN Settle(StartOf(s))
  ELSE IF CanFire(s) THEN Settle(FireOf(s))
  ELSE IF CanClose(s) THEN Settle(CloseOf(s))
  ELSE s

(* ------------------ macro-step spec: environment actions ------------------ *)
Init == \E i \in DOMAIN Defs : t = Settle(TInit(i)) /\ h = <<>>

Advance ==
  /\ Len(h) < MaxAdv /\ ~t.cancelled
  /\ \E x \in Grid : x > t.now /\
       LET s1 == Settle([t EXCEPT !.now = x]) IN
       /\ t' = s1
       /\ h' = Append(h, [op |-> "set", t |-> x, fires |-> Len(s1.fired), closed |-> s1.phase = "closed"])

Cancel ==
  /\ Len(h) < MaxAdv /\ ~t.cancelled /\ t.phase # "closed"
  /\ t' = [t EXCEPT !.cancelled = TRUE]
  /\ h' = Append(h, [op |-> "cancel", t |-> t.now, fires |-> Len(t.fired), closed |-> FALSE])

\* after a cancel the clock may still move: nothing may fire any more
AdvanceCancelled ==
  /\ Len(h) < MaxAdv /\ t.cancelled
  /\ \E x \in Grid : x > t.now /\
       /\ t' = [t EXCEPT !.now = x]
       /\ h' = Append(h, [op |-> "set", t |-> x, fires |-> Len(t.fired), closed |-> FALSE])

Next == Advance \/ Cancel \/ AdvanceCancelled
Spec == Init /\ [][Next]_vars

(* ------------------------------ properties ------------------------------ *)
\* never early: every firing happened at a clock reading >= its due time
NeverEarly ==
  \A k \in DOMAIN t.fired :
     IF Def(t).kind = "cycle"
     THEN t.fired[k] >= (IF k = 1 THEN Def(t).start ELSE t.fired[k - 1]) + Def(t).interval
     ELSE t.fired[k] >= Def(t).due
\* date / duration fire at most once, and exactly once as soon as the clock has reached the due time
OnceOnly == Def(t).kind # "cycle" => (Len(t.fired) <= 1 /\ ((t.now >= Def(t).due /\ ~t.cancelled) => Len(t.fired) = 1))
\* a cycle timer never fires more often than its repetition count, never at or after its end
CountBound == (Def(t).kind = "cycle" /\ Def(t).n >= 0) => Len(t.fired) <= Def(t).n
NeverAfterEnd == (Def(t).kind = "cycle" /\ Def(t).end >= 0) => \A k \in DOMAIN t.fired : t.fired[k] < Def(t).end
\* firings are at least one interval of clock time apart
Spaced == Def(t).kind = "cycle" => \A k \in DOMAIN t.fired : k > 1 => t.fired[k] - t.fired[k - 1] >= Def(t).interval
\* closed means no further firing (action property)
SilentAfterClose == [][(t.phase = "closed" \/ t.cancelled) => t'.fired = t.fired]_vars

(* ------------------------------- export -------------------------------- *)
ASSUME TLCSet(1, <<>>)
Terminal == Len(h) >= MaxAdv \/ t.phase = "closed"
Record == Terminal => TLCSet(1, Append(TLCGet(1), [def |-> t.d - 1, steps |-> h]))
Dump == ndJsonSerialize(OutFile, TLCGet(1))
=============================================================================
