----------------------------- MODULE TimerTrace -----------------------------
(***************************************************************************)
(* C13, direction B: recorded runs of the real timer against the mock      *)
(* clock are validated step by step with Timer's own step operators.       *)
(* Records: init(def) | set(t) | fire(t = clock reading at receipt) |      *)
(* closed | cancel | quiet (the harness has waited for everything the      *)
(* model expects and a grace period) | end.                                *)
(***************************************************************************)
EXTENDS Timer

CONSTANTS TraceFile
Log == ndJsonDeserialize(TraceFile)

VARIABLES l, ok
ASSUME TLCSet(2, {}) /\ TLCSet(3, {})

\* silent wake-ups that deliver nothing (start reached)
RECURSIVE Quiet(_)
Quiet(s) == IF ~s.cancelled /\ CanStart(s) THEN Quiet(StartOf(s)) ELSE s

Step(s0, e) ==
  LET s == Quiet(s0) IN
  CASE e.ev = "set" -> IF e.t >= s.now THEN {Quiet([s EXCEPT !.now = e.t])} ELSE {}
    [] e.ev = "fire" ->
         \* a firing must be enabled; the clock reading seen by the receiver is not
         \* before the reading that caused it.  One firing that was already due
         \* when the context was cancelled may still be delivered.
         IF CanFire(s) /\ e.t >= NextDue(s) /\ (~s.cancelled \/ s.stale)
         THEN {[FireOf(s) EXCEPT !.stale = FALSE]} ELSE {}
    [] e.ev = "closed" ->
         IF s.cancelled \/ CanClose(s) \/ s.phase = "closed" THEN {CloseOf(s)} ELSE {}
    [] e.ev = "cancel" -> {[s EXCEPT !.cancelled = TRUE, !.stale = CanFire(s)]}
    [] e.ev = "quiet" ->
         \* nothing is left that the timer has to do
         IF s.cancelled \/ (~CanFire(s) /\ ~CanClose(s)) THEN {s} ELSE {}
    [] e.ev = "end" -> {s}
    [] OTHER -> {}

TraceInit == l = 1 /\ ok = FALSE /\ t = TInit(1) /\ h = <<>>
TraceNext ==
  /\ l <= Len(Log) /\ l' = l + 1 /\ h' = h
  /\ LET e == Log[l] IN
     IF e.ev = "init" THEN t' = TInit(e.def + 1) /\ ok' = TRUE
     ELSE IF ~ok THEN UNCHANGED <<t, ok>>
     ELSE LET S == Step(t, e) IN
          IF S = {} THEN /\ ok' = FALSE /\ t' = t /\ TLCSet(3, TLCGet(3) \cup {<<e.run, l, e.ev, "">>})
          ELSE /\ t' \in S /\ ok' = TRUE /\ (e.ev = "end" => TLCSet(2, TLCGet(2) \cup {e.run}))
TraceSpec == TraceInit /\ [][TraceNext]_<<t, h, l, ok>>
Report == JsonSerialize(OutFile, [accepted |-> SetToSeq(TLCGet(2)), failures |-> SetToSeq(TLCGet(3)), len |-> Len(Log)])
=============================================================================
